#!/bin/bash
# Rebuild the simulator against the CURRENT /repo working tree. Offline.
# usage: build.sh [go1.26]   (default toolchain = the repo's own go)
set -euo pipefail
export GOFLAGS=-mod=mod GOPROXY=off GOSUMDB=off GOTOOLCHAIN=local CGO_ENABLED=1
REPO=${VERIF_REPO:-/repo}
cd "$(dirname "$0")/sim"
{
  sed -e 's#^module .*#module elyssim#' "$REPO/go.mod"
  echo
  echo "require github.com/elys-network/elys v0.0.0-00010101000000-000000000000"
  echo "replace github.com/elys-network/elys => $REPO"
} > go.mod.new
if ! cmp -s go.mod.new go.mod 2>/dev/null; then mv go.mod.new go.mod; else rm go.mod.new; fi
if ! cmp -s "$REPO/go.sum" go.sum 2>/dev/null; then cp "$REPO/go.sum" go.sum; fi
mkdir -p ../bin
GO=go
OUT=../bin/elyssim
if [ "${1:-}" = "go1.26" ]; then GO=go1.26.8; OUT=../bin/elyssim126; fi
if [ "${1:-}" = "fakeclock" ]; then
  # the fake-wall-clock replica of C19: test binary of this package built by the newer toolchain
  # (testing/synctest), see sim/fakeclock_test.go
  exec go1.26.8 test -c -o ../bin/elyssim-fakeclock .
fi
$GO build -o "$OUT" . 
