package main

import (
	"strings"
	"fmt"
	"math"
	"math/rand/v2"

	sdkmath "cosmossdk.io/math"
	sdk "github.com/cosmos/cosmos-sdk/types"
)

// Agent is one simulated party (client task). Step may submit transactions to
// the simulated network; Observe sees the executed block (its mailbox).
type Agent interface {
	Name() string
	Step(s *Sim)
	Observe(s *Sim, eb *ExecBlock)
}

type baseAgent struct {
	name string
	rng  *rand.Rand
}

func (a *baseAgent) Name() string                  { return a.name }
func (a *baseAgent) Observe(s *Sim, eb *ExecBlock) {}

func newBase(s *Sim, name string) baseAgent {
	return baseAgent{name: name, rng: s.Rng("agent/" + name)}
}

// encodeSpec fills MsgsJSON from Msgs.
func encodeSpec(n *Node, t *TxSpec) error {
	t.MsgsJSON = t.MsgsJSON[:0]
	for _, m := range t.Msgs {
		bz, err := n.App.AppCodec().MarshalInterfaceJSON(m)
		if err != nil {
			return err
		}
		t.MsgsJSON = append(t.MsgsJSON, string(bz))
	}
	return nil
}

func decodeSpec(n *Node, t *TxSpec) error {
	t.Msgs = nil
	for _, j := range t.MsgsJSON {
		var m sdk.Msg
		if err := n.App.AppCodec().UnmarshalInterfaceJSON([]byte(j), &m); err != nil {
			return fmt.Errorf("%v: %s", err, truncate(j, 200))
		}
		t.Msgs = append(t.Msgs, m)
	}
	return nil
}

const defaultGas = 5_000_000

// SendTx builds a TxSpec for acc and submits it to the simulated network.
func (s *Sim) SendTx(acc *Account, tag string, msgs ...sdk.Msg) *TxSpec {
	r := s.Rng("txparams")
	t := &TxSpec{Signer: acc.Addr.String(), Msgs: msgs, Gas: defaultGas, Tag: tag}
	// fee: usually a little uelys; sometimes other denoms, sometimes nothing
	fd := s.Cfg.FeeDenoms
	if len(fd) > 0 && r.Float64() < 0.85 {
		d := fd[r.IntN(len(fd))]
		t.Fee = fmt.Sprintf("%d%s", 100+r.IntN(5000), d)
		if d != DenomELYS {
			s.Stats.Probe("fee_paid_in_non_elys")
		}
	}
	// fault: abort the transaction at an arbitrary store access
	if g := s.Cfg.Faults.GasStarve; g > 0 {
		if strings.HasPrefix(tag, "bot/") {
			g *= 3 // keeper bots run loops that log-and-continue on per-item errors: the interesting place to run dry
		}
		if r.Float64() < g {
			t.Gas = uint64(60_000 + r.IntN(600_000))
			// usually: uniformly inside what this message type needed the last time it succeeded,
			// so the abort lands somewhere in the handler rather than before or after it
			if len(msgs) > 0 {
				if seen := s.gasSeen[sdk.MsgTypeURL(msgs[0])]; seen > 70_000 && r.IntN(4) != 0 {
					t.Gas = uint64(60_000 + r.Int64N(seen-60_000))
					s.Stats.Inc("fault/gas_limit_drawn_inside_typical_execution", 1)
				}
			}
			t.Tag += "+gasstarve"
			s.Stats.Inc("fault/gas_limit_drawn_low", 1)
			// half of the time: the exact cut instead (gascut.go) - the limit falls <delta> gas units
			// short of what the messages need on the state they meet; log-uniform delta, so the very
			// last charges of a handler are hit as often as its middle
			if cut := r.IntN(2) == 0; cut && !s.Cfg.ProdBoot {
				t.Gas = defaultGas
				delta := int64(math.Exp(r.Float64() * math.Log(1e6)))
				t.Memo = gasCutMemo(delta)
				t.Tag = strings.TrimSuffix(t.Tag, "+gasstarve") + "+gascut"
				s.Stats.Inc("fault/gas_cut_exact", 1)
			}
		}
	}
	if q := s.Cfg.Faults.StaleSeq; q > 0 && r.Float64() < q {
		t.SeqMode = "stale"
		s.Stats.Inc("fault/stale_sequence", 1)
	}
	if err := encodeSpec(s.N0, t); err != nil {
		s.Harness("encode %s: %v", tag, err)
		return t
	}
	s.Submit(t)
	return t
}

// ---- amount helpers

// logUniform draws an integer log-uniformly from [lo, hi].
func logUniform(r *rand.Rand, lo, hi float64) sdkmath.Int {
	if lo < 1 {
		lo = 1
	}
	if hi < lo {
		hi = lo
	}
	x := math.Exp(math.Log(lo) + r.Float64()*(math.Log(hi)-math.Log(lo)))
	return sdkmath.NewInt(int64(x))
}

func pick[T any](r *rand.Rand, xs []T) T { return xs[r.IntN(len(xs))] }

func decFromFloat(f float64) sdkmath.LegacyDec {
	return sdkmath.LegacyMustNewDecFromStr(fmt.Sprintf("%.12f", f))
}

func (s *Sim) user(r *rand.Rand) *Account { return s.W.Users[r.IntN(len(s.W.Users))] }

func (s *Sim) balanceOf(a sdk.AccAddress, denom string) sdkmath.Int {
	return s.N0.App.BankKeeper.GetBalance(s.Ctx(), a, denom).Amount
}
