package main

import (
	"sort"
	sdkmath "cosmossdk.io/math"
	sdk "github.com/cosmos/cosmos-sdk/types"
	vestingtypes "github.com/cosmos/cosmos-sdk/x/auth/vesting/types"
	banktypes "github.com/cosmos/cosmos-sdk/x/bank/types"

	ammtypes "github.com/elys-network/elys/x/amm/types"
)

func (s *Sim) pools() []ammtypes.Pool { return s.N0.App.AmmKeeper.GetAllPool(s.Ctx()) }

func otherDenom(p ammtypes.Pool, d string) string {
	for _, a := range p.PoolAssets {
		if a.Token.Denom != d {
			return a.Token.Denom
		}
	}
	return ""
}

func reserveOf(p ammtypes.Pool, d string) sdkmath.Int {
	for _, a := range p.PoolAssets {
		if a.Token.Denom == d {
			return a.Token.Amount
		}
	}
	return sdkmath.ZeroInt()
}

// uniq makes an amount unique within the run so that each bank movement can be
// attributed to one request: the low 4 digits encode a nonce.
func (s *Sim) uniq(x sdkmath.Int) sdkmath.Int {
	s.nonce++
	if x.LT(sdkmath.NewInt(100_000)) {
		return x
	}
	return x.QuoRaw(10_000).MulRaw(10_000).AddRaw(int64(s.nonce % 10_000))
}

// ---------------------------------------------------------------------------
// TraderAgent

type TraderAgent struct {
	baseAgent
}

func (a *TraderAgent) Step(s *Sim) {
	r := a.rng
	rate := s.Cfg.rate("trader")
	pools := s.pools()
	if len(pools) == 0 {
		return
	}
	n := 0
	for r.Float64() < rate && n < 6 {
		n++
		u := s.user(r)
		rcpt := u.Addr.String()
		if r.Float64() < 0.2 {
			rcpt = s.user(r).Addr.String()
			s.Stats.Probe("swap_recipient_differs")
		} else if r.Float64() < 0.2 {
			rcpt = ""
		} else if r.Float64() < 0.04 {
			// a protocol address as recipient: module accounts (several are created lazily, on their
			// module's first use) - the bank refuses plain sends to them, a keeper's payout may not
			var ms []string
			for a := range s.N0.App.ModuleAccountAddrs() {
				ms = append(ms, a)
			}
			sort.Strings(ms)
			rcpt = ms[r.IntN(len(ms))]
			// preferably one that has no account yet: a payout would create a plain account in its place
			var fresh []string
			for _, a := range ms {
				if acc, err := sdk.AccAddressFromBech32(a); err == nil && s.N0.App.AccountKeeper.GetAccount(s.Ctx(), acc) == nil {
					fresh = append(fresh, a)
				}
			}
			if len(fresh) > 0 && r.IntN(4) != 0 {
				rcpt = fresh[r.IntN(len(fresh))]
				s.Stats.Probe("swap_recipient_is_module_address_without_account_submitted")
			}
			s.Stats.Probe("swap_recipient_is_module_account_submitted")
		}
		p := pick(r, pools)
		// hot pool: several traders hit the same pool in the same block, both directions
		if r.Float64() < 0.5 {
			p = pools[int(s.Height)%len(pools)]
		}
		inDenom := p.PoolAssets[r.IntN(2)].Token.Denom
		outDenom := otherDenom(p, inDenom)
		multihop := false
		var p2 ammtypes.Pool
		if inDenom != DenomUSDC && len(pools) > 1 && r.Float64() < 0.3 {
			// X -> USDC -> Y
			p2 = pick(r, pools)
			if p2.PoolId != p.PoolId {
				multihop = true
			}
		}
		resIn := reserveOf(p, inDenom)
		resOut := reserveOf(p, outDenom)
		switch r.IntN(10) {
		case 0, 1, 2, 3, 4: // exact in
			frac := []float64{1e-7, 1e-5, 1e-3, 0.01, 0.05, 0.3, 0.9}[r.IntN(7)]
			in := s.uniq(sdkmath.LegacyNewDecFromInt(resIn).Mul(decFromFloat(frac * (0.5 + r.Float64()))).TruncateInt().AddRaw(1))
			if r.Float64() < 0.05 {
				in = sdkmath.NewInt(int64(1 + r.IntN(3))) // dust
			}
			routes := []ammtypes.SwapAmountInRoute{{PoolId: p.PoolId, TokenOutDenom: outDenom}}
			if !multihop && r.Float64() < 0.08 {
				// a route that visits the same pool again: round trip A->B->A inside one pool, or p, p2, p
				routes = append(routes, ammtypes.SwapAmountInRoute{PoolId: p.PoolId, TokenOutDenom: inDenom})
				if r.IntN(2) == 0 {
					routes = append(routes, ammtypes.SwapAmountInRoute{PoolId: p.PoolId, TokenOutDenom: outDenom})
				}
				s.Stats.Probe("route_revisits_pool_submitted")
			}
			if multihop {
				routes = append(routes, ammtypes.SwapAmountInRoute{PoolId: p2.PoolId, TokenOutDenom: otherDenom(p2, DenomUSDC)})
				s.Stats.Probe("multihop_swap_submitted")
			}
			minOut := sdkmath.OneInt()
			switch r.IntN(4) {
			case 0:
				minOut = sdkmath.ZeroInt()
			case 1: // tight-ish: 60%..105% of the constant-product quote on current reserves
				q := sdkmath.LegacyNewDecFromInt(in).MulInt(resOut).QuoInt(resIn.Add(in))
				if multihop {
					// second hop quoted on the first hop's quote: a real minimum that a same-block price
					// move on either pool can break (only the last hop enforces it)
					r2in, r2out := reserveOf(p2, DenomUSDC), reserveOf(p2, otherDenom(p2, DenomUSDC))
					if r2in.IsPositive() && q.IsPositive() {
						q = q.MulInt(r2out).Quo(sdkmath.LegacyNewDecFromInt(r2in).Add(q))
						s.Stats.Probe("multihop_swap_with_real_minimum_submitted")
					}
				}
				minOut = q.Mul(decFromFloat(0.6 + 0.45*r.Float64())).TruncateInt()
			}
			s.SendTx(u, "trader/swap_in", &ammtypes.MsgSwapExactAmountIn{Sender: u.Addr.String(), Routes: routes, TokenIn: sdk.NewCoin(inDenom, in), TokenOutMinAmount: minOut, Recipient: rcpt})
		case 5, 6, 7: // exact out
			frac := []float64{1e-7, 1e-5, 1e-3, 0.01, 0.05, 0.3, 0.8}[r.IntN(7)]
			out := s.uniq(sdkmath.LegacyNewDecFromInt(resOut).Mul(decFromFloat(frac * (0.5 + r.Float64()))).TruncateInt().AddRaw(1))
			routes := []ammtypes.SwapAmountOutRoute{{PoolId: p.PoolId, TokenInDenom: inDenom}}
			finalOut := outDenom
			if multihop && outDenom == DenomUSDC {
				// in -> USDC (pool p) -> Y (pool p2)
				finalOut = otherDenom(p2, DenomUSDC)
				routes = append(routes, ammtypes.SwapAmountOutRoute{PoolId: p2.PoolId, TokenInDenom: DenomUSDC})
				out = s.uniq(sdkmath.LegacyNewDecFromInt(reserveOf(p2, finalOut)).Mul(decFromFloat(frac * 0.5)).TruncateInt().AddRaw(1))
				s.Stats.Probe("multihop_swap_out_submitted")
			}
			maxIn := s.balanceOf(u.Addr, inDenom)
			if r.IntN(3) == 0 {
				// tight: proportional in * (0.9..1.6)
				maxIn = sdkmath.LegacyNewDecFromInt(out).MulInt(resIn).QuoInt(sdkmath.MaxInt(resOut.Sub(out), sdkmath.OneInt())).Mul(decFromFloat(0.9 + 0.7*r.Float64())).TruncateInt().AddRaw(1)
			}
			s.SendTx(u, "trader/swap_out", &ammtypes.MsgSwapExactAmountOut{Sender: u.Addr.String(), Routes: routes, TokenOut: sdk.NewCoin(finalOut, out), TokenInMaxAmount: maxIn, Recipient: rcpt})
		default: // by denom
			frac := []float64{1e-5, 1e-3, 0.02, 0.2}[r.IntN(4)]
			in := s.uniq(sdkmath.LegacyNewDecFromInt(resIn).Mul(decFromFloat(frac)).TruncateInt().AddRaw(1))
			dOut := outDenom
			if r.Float64() < 0.3 {
				dOut = pick(r, Universe).Denom
			}
			if dOut == inDenom {
				continue
			}
			if r.IntN(3) == 0 {
				// the exact-out form of the same message: the amount is stated in the out denom
				want := s.uniq(sdkmath.LegacyNewDecFromInt(resOut).Mul(decFromFloat(1e-4 * (0.5 + r.Float64()))).TruncateInt().AddRaw(1))
				s.SendTx(u, "trader/swap_by_denom_out", &ammtypes.MsgSwapByDenom{Sender: u.Addr.String(), Amount: sdk.NewCoin(outDenom, want), MinAmount: sdk.NewCoin(outDenom, sdkmath.ZeroInt()), MaxAmount: sdk.NewCoin(outDenom, sdkmath.NewIntWithDecimal(1, 24)), DenomIn: inDenom, DenomOut: outDenom, Recipient: rcpt}) // the handler wants the max-in amount labelled with the OUT denom
				s.Stats.Probe("swap_by_denom_exact_out_submitted")
				continue
			}
			s.SendTx(u, "trader/swap_by_denom", &ammtypes.MsgSwapByDenom{Sender: u.Addr.String(), Amount: sdk.NewCoin(inDenom, in), MinAmount: sdk.NewCoin(dOut, sdkmath.ZeroInt()), DenomIn: inDenom, DenomOut: dOut, Recipient: rcpt})
		}
	}
}

// ---------------------------------------------------------------------------
// LPAgent: joins and exits.

type LPAgent struct {
	baseAgent
}

func (a *LPAgent) Step(s *Sim) {
	r := a.rng
	rate := s.Cfg.rate("lp")
	pools := s.pools()
	if len(pools) == 0 {
		return
	}
	n := 0
	for r.Float64() < rate && n < 4 {
		n++
		u := s.user(r)
		p := pick(r, pools)
		shareDenom := ammtypes.GetPoolShareDenom(p.PoolId)
		whale := false
		if r.Float64() < 0.08 {
			// the pool's largest liquidity provider pulls most of its liquidity (what backs open
			// positions and pending settlements leaves with it)
			best := sdkmath.ZeroInt()
			for _, cand := range s.W.Users {
				cc := s.N0.App.CommitmentKeeper.GetCommitments(s.Ctx(), cand.Addr)
				if c := cc.GetCommittedAmountForDenom(shareDenom); c.GT(best) {
					best, u = c, cand
				}
			}
			whale = best.IsPositive()
		}
		cm := s.N0.App.CommitmentKeeper.GetCommitments(s.Ctx(), u.Addr)
		committed := cm.GetCommittedAmountForDenom(shareDenom)
		if committed.IsPositive() && (whale || r.Float64() < 0.45) {
			// exit
			frac := []float64{1e-6, 0.01, 0.1, 0.5, 1.0}[r.IntN(5)]
			if whale {
				frac = 0.3 + 0.65*r.Float64()
				s.Stats.Probe("largest_provider_exit_submitted")
			}
			sh := sdkmath.LegacyNewDecFromInt(committed).Mul(decFromFloat(frac)).TruncateInt()
			if sh.IsZero() {
				sh = sdkmath.OneInt()
			}
			if r.Float64() < 0.03 {
				sh = p.TotalShares.Amount // try to burn everything
			}
			out := ""
			if r.Float64() < 0.4 {
				out = p.PoolAssets[r.IntN(2)].Token.Denom
				s.Stats.Probe("exit_single_denom_submitted")
			}
			if p.PoolParams.UseOracle && r.Float64() < 0.12 {
				// a one-asset exit sized to take (almost) exactly the whole reserve of that asset: the
				// largest share amount whose payout, by the chain's own calculation, still fits
				out = p.PoolAssets[r.IntN(2)].Token.Denom
				if best, ok := a.drainingExit(s, p, out, committed); ok {
					sh = best
					s.Stats.Probe("exit_sized_to_drain_a_reserve_submitted")
				}
			}
			s.SendTx(u, "lp/exit", &ammtypes.MsgExitPool{Sender: u.Addr.String(), PoolId: p.PoolId, MinAmountsOut: sdk.Coins{}, ShareAmountIn: sh, TokenOutDenom: out})
			continue
		}
		if r.Float64() < 0.04 {
			// malformed but accepted? the same denom listed twice in the join's token list
			d := p.PoolAssets[r.IntN(2)].Token.Denom
			a1 := s.uniq(sdkmath.LegacyNewDecFromInt(reserveOf(p, d)).Mul(decFromFloat(0.001 + 0.2*r.Float64())).TruncateInt().AddRaw(1))
			s.SendTx(u, "lp/join_duplicate_denom", &ammtypes.MsgJoinPool{Sender: u.Addr.String(), PoolId: p.PoolId, MaxAmountsIn: []sdk.Coin{sdk.NewCoin(d, a1), sdk.NewCoin(d, a1.MulRaw(2))}, ShareAmountOut: sdkmath.OneInt()})
			s.Stats.Probe("join_with_duplicate_denom_submitted")
			continue
		}
		// join
		frac := []float64{1e-7, 1e-4, 0.01, 0.1, 1, 3}[r.IntN(6)] * (0.5 + r.Float64())
		var maxIn sdk.Coins
		single := r.Float64() < 0.35
		for i, as := range p.PoolAssets {
			if single && i != int(s.Height)%2 {
				continue
			}
			amt := s.uniq(sdkmath.LegacyNewDecFromInt(as.Token.Amount).Mul(decFromFloat(frac)).TruncateInt().AddRaw(1))
			bal := s.balanceOf(u.Addr, as.Token.Denom)
			if amt.GT(bal) {
				amt = bal.QuoRaw(2)
			}
			if amt.IsPositive() {
				maxIn = maxIn.Add(sdk.NewCoin(as.Token.Denom, amt))
			}
		}
		if len(maxIn) == 0 {
			continue
		}
		if single {
			s.Stats.Probe("join_single_asset_submitted")
		}
		shareOut := sdkmath.OneInt()
		if !single && r.Float64() < 0.5 {
			// ask for the proportional share amount (scaled down a bit)
			shareOut = sdkmath.LegacyNewDecFromInt(p.TotalShares.Amount).Mul(decFromFloat(frac * 0.45)).TruncateInt().AddRaw(1)
		}
		s.SendTx(u, "lp/join", &ammtypes.MsgJoinPool{Sender: u.Addr.String(), PoolId: p.PoolId, MaxAmountsIn: maxIn, ShareAmountOut: shareOut})
	}
}

// ---------------------------------------------------------------------------
// DonorAgent: plain bank sends to pool addresses (the only third-party
// transfers C01 must tolerate) and to the zero address (burner input).

type DonorAgent struct {
	baseAgent
}

func (a *DonorAgent) Step(s *Sim) {
	r := a.rng
	if r.Float64() >= s.Cfg.rate("donor") {
		return
	}
	u := s.user(r)
	pools := s.pools()
	switch {
	case len(pools) > 0 && r.Float64() < 0.6:
		p := pick(r, pools)
		d := pick(r, Universe).Denom
		amt := s.uniq(logUniform(r, 1, 5e8))
		s.SendTx(u, "donor/pool", &banktypes.MsgSend{FromAddress: u.Addr.String(), ToAddress: p.Address, Amount: sdk.NewCoins(sdk.NewCoin(d, amt))})
		s.Stats.Probe("donation_to_pool_address")
	case r.Float64() < 0.15:
		// the burn address receives coins it can never spend: a permanently locked (vesting) account
		// created there by an ordinary transaction, if no account exists at the address yet
		zero := sdk.AccAddress(make([]byte, 20)).String()
		s.SendTx(u, "donor/lock_at_burn_address", &vestingtypes.MsgCreatePermanentLockedAccount{FromAddress: u.Addr.String(), ToAddress: zero, Amount: sdk.NewCoins(sdk.NewCoin(DenomELYS, logUniform(r, 1, 1e6)))})
		s.Stats.Probe("locked_account_at_burn_address_submitted")
	default:
		zero := sdk.AccAddress(make([]byte, 20)).String()
		d := pick(r, []string{DenomELYS, DenomELYS, DenomUSDC, DenomATOM})
		s.SendTx(u, "donor/burn", &banktypes.MsgSend{FromAddress: u.Addr.String(), ToAddress: zero, Amount: sdk.NewCoins(sdk.NewCoin(d, logUniform(r, 1, 1e7)))})
		s.Stats.Probe("send_to_zero_address")
	}
}

// drainingExit: binary search, with the chain's own exit calculation on the committed state, for
// the largest share amount (up to max) whose one-asset payout does not exceed the pool's reserve.
func (a *LPAgent) drainingExit(s *Sim, p ammtypes.Pool, denom string, max sdkmath.Int) (sdkmath.Int, bool) {
	ctx, _ := s.Ctx().CacheContext()
	app := s.N0.App
	reserve := reserveOf(p, denom)
	params := app.AmmKeeper.GetParams(ctx)
	pays := func(sh sdkmath.Int) (sdkmath.Int, bool) {
		var out sdkmath.Int
		ok := true
		func() {
			defer func() {
				if recover() != nil {
					ok = false
				}
			}()
			pp := p
			coins, _, err := pp.CalcExitPoolCoinsFromShares(ctx, app.OracleKeeper, app.AccountedPoolKeeper, sh, denom, params)
			if err != nil {
				ok = false
				return
			}
			out = coins.AmountOf(denom)
		}()
		return out, ok
	}
	hi := max
	if lim := p.TotalShares.Amount.SubRaw(1); hi.GT(lim) {
		hi = lim
	}
	lo := sdkmath.OneInt()
	if !hi.GT(lo) {
		return sdkmath.Int{}, false
	}
	if o, ok := pays(hi); ok && o.LTE(reserve) {
		return hi, o.Equal(reserve) // the account cannot reach the reserve: only worth it if it hits exactly
	}
	for i := 0; i < 200 && hi.Sub(lo).GT(sdkmath.OneInt()); i++ {
		mid := lo.Add(hi).QuoRaw(2)
		if o, ok := pays(mid); ok && o.LTE(reserve) {
			lo = mid
		} else {
			hi = mid
		}
	}
	if o, ok := pays(lo); ok && o.IsPositive() {
		if o.Equal(reserve) {
			s.Stats.Probe("exit_that_pays_exactly_the_reserve_found")
		}
		return lo, true
	}
	return sdkmath.Int{}, false
}
