package main

import (
	"fmt"
	"sort"
	"strings"

	sdk "github.com/cosmos/cosmos-sdk/types"
	"github.com/cosmos/cosmos-sdk/x/authz"
	gogoproto "github.com/cosmos/gogoproto/proto"
	msgv1 "cosmossdk.io/api/cosmos/msg/v1"
	"google.golang.org/protobuf/proto"
	"google.golang.org/protobuf/reflect/protoreflect"
	"google.golang.org/protobuf/types/dynamicpb"

	vestingtypes "github.com/cosmos/cosmos-sdk/x/auth/vesting/types"
	assetprofiletypes "github.com/elys-network/elys/x/assetprofile/types"
	leveragelptypes "github.com/elys-network/elys/x/leveragelp/types"
	mastercheftypes "github.com/elys-network/elys/x/masterchef/types"
	perpetualtypes "github.com/elys-network/elys/x/perpetual/types"
	tradeshieldtypes "github.com/elys-network/elys/x/tradeshield/types"
)

// msgInfo describes one registered elys message type.
type msgInfo struct {
	URL         string
	Desc        protoreflect.MessageDescriptor
	SignerField string
	Authority   bool // carries a governance-authority field
}

// The five parameter-module messages whose signer field is called "creator" but
// is compared with the governance authority by the handler. Cross-checked at
// start-up: each must exist.
var creatorIsAuthority = []string{
	"/elys.parameter.MsgUpdateMinCommission",
	"/elys.parameter.MsgUpdateMaxVotingPower",
	"/elys.parameter.MsgUpdateMinSelfDelegation",
	"/elys.parameter.MsgUpdateTotalBlocksPerYear",
	"/elys.parameter.MsgUpdateRewardsDataLifetime",
}

// enumerateElysMsgs lists every registered sdk.Msg implementation of an elys
// module together with its signer field (from the cosmos.msg.v1.signer option).
func enumerateElysMsgs(s *Sim) ([]msgInfo, error) {
	reg := s.N0.App.InterfaceRegistry()
	urls := reg.ListImplementations(sdk.MsgInterfaceProtoName)
	sort.Strings(urls)
	var out []msgInfo
	for _, u := range urls {
		if !strings.HasPrefix(u, "/elys.") {
			continue
		}
		d, err := gogoproto.HybridResolver.FindDescriptorByName(protoreflect.FullName(strings.TrimPrefix(u, "/")))
		if err != nil {
			return nil, fmt.Errorf("no descriptor for %s: %v", u, err)
		}
		md, ok := d.(protoreflect.MessageDescriptor)
		if !ok {
			continue
		}
		signers, _ := proto.GetExtension(md.Options(), msgv1.E_Signer).([]string)
		mi := msgInfo{URL: u, Desc: md}
		if len(signers) > 0 {
			mi.SignerField = signers[0]
		}
		mi.Authority = mi.SignerField == "authority"
		for _, c := range creatorIsAuthority {
			if c == u {
				mi.Authority = true
			}
		}
		out = append(out, mi)
	}
	for _, c := range creatorIsAuthority {
		found := false
		for _, mi := range out {
			if mi.URL == c {
				found = true
			}
		}
		if !found {
			return nil, fmt.Errorf("supplement list names %s which is not registered", c)
		}
	}
	return out, nil
}

// fillMessage fills a dynamic message with valid-looking content.
func fillMessage(s *Sim, md protoreflect.MessageDescriptor, signerField, signer string, other string, depth int) *dynamicpb.Message {
	m := dynamicpb.NewMessage(md)
	fields := md.Fields()
	for i := 0; i < fields.Len(); i++ {
		fd := fields.Get(i)
		name := string(fd.Name())
		val := func() (protoreflect.Value, bool) {
			switch fd.Kind() {
			case protoreflect.StringKind:
				ln := strings.ToLower(name)
				switch {
				case depth == 0 && name == signerField:
					return protoreflect.ValueOfString(signer), true
				case strings.Contains(ln, "address") || ln == "creator" || ln == "authority" || ln == "sender" || ln == "owner" || ln == "feeder" || ln == "provider" || ln == "recipient" || ln == "user":
					return protoreflect.ValueOfString(other), true
				case strings.Contains(ln, "denom") || strings.Contains(ln, "asset"):
					return protoreflect.ValueOfString(DenomUSDC), true
				case ln == "intent":
					// key of a stored airdrop record; one the signer itself is named in, if there is one
					// (a check against the record's own authority field instead of the chain's is a
					// plausible slip)
					best := "1"
					for _, ad := range s.N0.App.TokenomicsKeeper.GetAllAirdrop(s.Ctx()) {
						if ad.Authority == signer {
							return protoreflect.ValueOfString(ad.Intent), true
						}
						best = ad.Intent
					}
					return protoreflect.ValueOfString(best), true
				case strings.Contains(ln, "epoch"):
					return protoreflect.ValueOfString("day"), true
				case strings.Contains(ln, "validator"):
					return protoreflect.ValueOfString(s.W.ValAddr.String()), true
				default:
					// math.Int ("1") and LegacyDec (1e-18) custom types are strings on the wire
					return protoreflect.ValueOfString("1"), true
				}
			case protoreflect.BoolKind:
				return protoreflect.ValueOfBool(true), true
			case protoreflect.Int32Kind, protoreflect.Sint32Kind, protoreflect.Sfixed32Kind:
				return protoreflect.ValueOfInt32(1), true
			case protoreflect.Int64Kind, protoreflect.Sint64Kind, protoreflect.Sfixed64Kind:
				return protoreflect.ValueOfInt64(1), true
			case protoreflect.Uint32Kind, protoreflect.Fixed32Kind:
				return protoreflect.ValueOfUint32(1), true
			case protoreflect.Uint64Kind, protoreflect.Fixed64Kind:
				return protoreflect.ValueOfUint64(1), true
			case protoreflect.EnumKind:
				vals := fd.Enum().Values()
				return protoreflect.ValueOfEnum(vals.Get(vals.Len() - 1).Number()), true
			case protoreflect.BytesKind:
				return protoreflect.ValueOfBytes([]byte{1}), true
			case protoreflect.MessageKind:
				if depth > 3 {
					return protoreflect.Value{}, false
				}
				if fd.Message().FullName() == "cosmos.base.v1beta1.Coin" {
					c := dynamicpb.NewMessage(fd.Message())
					c.Set(fd.Message().Fields().ByName("denom"), protoreflect.ValueOfString(DenomUSDC))
					c.Set(fd.Message().Fields().ByName("amount"), protoreflect.ValueOfString("1"))
					return protoreflect.ValueOfMessage(c), true
				}
				return protoreflect.ValueOfMessage(fillMessage(s, fd.Message(), "", signer, other, depth+1)), true
			}
			return protoreflect.Value{}, false
		}
		if fd.IsMap() {
			continue
		}
		if fd.IsList() {
			v, ok := val()
			if ok {
				l := m.Mutable(fd).List()
				l.Append(v)
			}
			continue
		}
		if v, ok := val(); ok {
			m.Set(fd, v)
		}
	}
	return m
}

// buildMsg turns a filled dynamic message into the registered (gogoproto) sdk.Msg.
func buildMsg(s *Sim, mi msgInfo, signer, other string) (sdk.Msg, error) {
	dm := fillMessage(s, mi.Desc, mi.SignerField, signer, other, 0)
	bz, err := proto.Marshal(dm)
	if err != nil {
		return nil, err
	}
	pm, err := s.N0.App.InterfaceRegistry().Resolve(mi.URL)
	if err != nil {
		return nil, err
	}
	if err := gogoproto.Unmarshal(bz, pm); err != nil {
		return nil, err
	}
	msg, ok := pm.(sdk.Msg)
	if !ok {
		return nil, fmt.Errorf("%s is not an sdk.Msg", mi.URL)
	}
	return msg, nil
}

// AttackerAgent: (i) every authority-bearing message signed by a non-authority,
// with reflection-generated content and with the content of real governance
// messages; (ii) the same wrapped in authz.MsgExec with the real authority and no
// grant; (iii) owner-scoped messages pointed at other parties' objects.
type AttackerAgent struct {
	baseAgent
	msgs  []msgInfo
	next  int
	ready bool
}

func (a *AttackerAgent) Step(s *Sim) {
	r := a.rng
	if !a.ready {
		ms, err := enumerateElysMsgs(s)
		if err != nil {
			s.Harness("C17 generator: %v", err)
			return
		}
		for _, m := range ms {
			if m.Authority {
				a.msgs = append(a.msgs, m)
			}
		}
		if len(a.msgs) < 20 {
			s.Harness("C17 generator: only %d authority messages found", len(a.msgs))
			return
		}
		a.ready = true
		s.Stats.Add("c17_authority_message_types", float64(len(a.msgs)))
	}
	if s.Height < 6 || r.Float64() >= s.Cfg.rate("attacker") {
		return
	}
	attacker := s.user(r)
	gov := s.W.GovAddr.String()
	switch r.IntN(6) {
	case 0, 1:
		// reflection-generated authority message, attacker's own address in the authority field
		mi := a.msgs[a.next%len(a.msgs)]
		a.next++
		if strings.Contains(mi.URL, "Airdrop") && r.IntN(2) == 0 {
			attacker = s.W.Users[r.IntN(min(3, len(s.W.Users)))] // the accounts named in genesis airdrop records
			s.Stats.Probe("authority_message_from_account_named_in_the_record")
		}
		msg, err := buildMsg(s, mi, attacker.Addr.String(), s.user(r).Addr.String())
		if err != nil {
			s.Harness("C17 generator cannot build %s: %v", mi.URL, err)
			return
		}
		s.SendTx(attacker, "attack/authority_reflect", msg)
	case 2:
		// the same with the REAL authority in the field, wrapped in authz.MsgExec by the attacker (no grant exists)
		mi := a.msgs[a.next%len(a.msgs)]
		a.next++
		msg, err := buildMsg(s, mi, gov, s.user(r).Addr.String())
		if err != nil {
			s.Harness("C17 generator cannot build %s: %v", mi.URL, err)
			return
		}
		ex := authz.NewMsgExec(attacker.Addr, []sdk.Msg{msg})
		s.SendTx(attacker, "attack/authority_authz", &ex)
	case 3:
		// a real governance message (valid content) re-signed by the attacker
		if len(s.Gov.seen) == 0 {
			return
		}
		orig := s.Gov.seen[r.IntN(len(s.Gov.seen))]
		msg, err := resign(s, orig, attacker.Addr.String())
		if err != nil {
			return
		}
		if r.IntN(2) == 0 {
			s.SendTx(attacker, "attack/authority_real_content", msg)
		} else {
			ex := authz.NewMsgExec(attacker.Addr, []sdk.Msg{orig})
			s.SendTx(attacker, "attack/authority_real_content_authz", &ex)
		}
	default:
		a.ownerScoped(s, attacker)
	}
}

// resign copies a governance message and puts addr into its authority/signer field.
func resign(s *Sim, orig sdk.Msg, addr string) (sdk.Msg, error) {
	url := sdk.MsgTypeURL(orig)
	d, err := gogoproto.HybridResolver.FindDescriptorByName(protoreflect.FullName(strings.TrimPrefix(url, "/")))
	if err != nil {
		return nil, err
	}
	md := d.(protoreflect.MessageDescriptor)
	signers, _ := proto.GetExtension(md.Options(), msgv1.E_Signer).([]string)
	if len(signers) == 0 {
		return nil, fmt.Errorf("no signer")
	}
	bz, err := gogoproto.Marshal(orig)
	if err != nil {
		return nil, err
	}
	dm := dynamicpb.NewMessage(md)
	if err := proto.Unmarshal(bz, dm); err != nil {
		return nil, err
	}
	fd := md.Fields().ByName(protoreflect.Name(signers[0]))
	if fd == nil {
		return nil, fmt.Errorf("no field")
	}
	dm.Set(fd, protoreflect.ValueOfString(addr))
	bz2, err := proto.Marshal(dm)
	if err != nil {
		return nil, err
	}
	pm, err := s.N0.App.InterfaceRegistry().Resolve(url)
	if err != nil {
		return nil, err
	}
	if err := gogoproto.Unmarshal(bz2, pm); err != nil {
		return nil, err
	}
	return pm.(sdk.Msg), nil
}

// ownerScoped: messages that act on an object identified by id, pointed at
// another party's live object.
func (a *AttackerAgent) ownerScoped(s *Sim, attacker *Account) {
	r := a.rng
	ctx := s.Ctx()
	me := attacker.Addr.String()
	if r.IntN(2) == 0 {
		a.ownerScopedOrders(s, attacker)
		return
	}
	switch r.IntN(6) {
	case 0:
		for _, p := range s.N0.App.LeveragelpKeeper.GetAllPositions(ctx) {
			if p.Address != me {
				s.SendTx(attacker, "attack/owner/levlp_close", &leveragelptypes.MsgClose{Creator: me, Id: p.Id, LpAmount: p.LeveragedLpAmount})
				return
			}
		}
	case 1:
		for _, p := range s.N0.App.LeveragelpKeeper.GetAllPositions(ctx) {
			if p.Address != me {
				s.SendTx(attacker, "attack/owner/levlp_update_sl", &leveragelptypes.MsgUpdateStopLoss{Creator: me, Position: p.Id, Price: decFromFloat(1000)})
				return
			}
		}
	case 2:
		for _, p := range s.N0.App.LeveragelpKeeper.GetAllPositions(ctx) {
			if p.Address != me {
				s.SendTx(attacker, "attack/owner/levlp_claim", &leveragelptypes.MsgClaimRewards{Sender: me, Ids: []uint64{p.Id}})
				return
			}
		}
	case 3:
		for _, m := range s.N0.App.PerpetualKeeper.GetAllMTPs(ctx) {
			if m.Address != me {
				s.SendTx(attacker, "attack/owner/perp_close", &perpetualtypes.MsgClose{Creator: me, Id: m.Id, Amount: m.Custody})
				return
			}
		}
	case 4:
		for _, m := range s.N0.App.PerpetualKeeper.GetAllMTPs(ctx) {
			if m.Address != me {
				s.SendTx(attacker, "attack/owner/perp_update_sl", &perpetualtypes.MsgUpdateStopLoss{Creator: me, Id: m.Id, Price: decFromFloat(0.0001)})
				return
			}
		}
	case 5:
		for _, m := range s.N0.App.PerpetualKeeper.GetAllMTPs(ctx) {
			if m.Address != me {
				s.SendTx(attacker, "attack/owner/perp_update_tp", &perpetualtypes.MsgUpdateTakeProfitPrice{Creator: me, Id: m.Id, Price: m.TakeProfitPrice.Mul(decFromFloat(1.01))})
				return
			}
		}
	default:
		// claiming through somebody else's leveraged position id via the masterchef route is not possible
		// (claims are keyed by the signer); nothing to attack here
		_ = mastercheftypes.ModuleName
	}
}

// ownerScopedOrders: every tradeshield message that names an order by id, pointed at a
// live pending order of another owner: single and batch variants, and batches mixing the
// attacker's own live orders with a foreign one (the whole message must be refused).
func (a *AttackerAgent) ownerScopedOrders(s *Sim, attacker *Account) {
	r := a.rng
	ctx := s.Ctx()
	me := attacker.Addr.String()
	var foreignSpot, ownSpot []tradeshieldtypes.SpotOrder
	for _, o := range s.N0.App.TradeshieldKeeper.GetAllPendingSpotOrder(ctx) {
		if o.OwnerAddress != me {
			foreignSpot = append(foreignSpot, o)
		} else {
			ownSpot = append(ownSpot, o)
		}
	}
	var foreignPerp, ownPerp []tradeshieldtypes.PerpetualOrder
	for _, o := range s.N0.App.TradeshieldKeeper.GetAllPendingPerpetualOrder(ctx) {
		if o.OwnerAddress != me {
			foreignPerp = append(foreignPerp, o)
		} else {
			ownPerp = append(ownPerp, o)
		}
	}
	switch r.IntN(8) {
	case 0:
		if len(foreignSpot) > 0 {
			o := foreignSpot[r.IntN(len(foreignSpot))]
			s.SendTx(attacker, "attack/owner/spot_cancel", &tradeshieldtypes.MsgCancelSpotOrder{OwnerAddress: me, OrderId: o.OrderId})
		}
	case 1:
		if len(foreignSpot) > 0 {
			o := foreignSpot[r.IntN(len(foreignSpot))]
			s.SendTx(attacker, "attack/owner/spot_cancel_batch", &tradeshieldtypes.MsgCancelSpotOrders{Creator: me, SpotOrderIds: []uint64{o.OrderId}})
		}
	case 2:
		// own live orders first, the foreign one last
		if len(foreignSpot) > 0 {
			var ids []uint64
			for _, o := range ownSpot {
				ids = append(ids, o.OrderId)
			}
			ids = append(ids, foreignSpot[r.IntN(len(foreignSpot))].OrderId)
			s.SendTx(attacker, "attack/owner/spot_cancel_batch_mixed", &tradeshieldtypes.MsgCancelSpotOrders{Creator: me, SpotOrderIds: ids})
		}
	case 3:
		if len(foreignSpot) > 0 {
			o := foreignSpot[r.IntN(len(foreignSpot))]
			np := o.OrderPrice
			np.Rate = np.Rate.Mul(decFromFloat(0.5 + r.Float64()))
			s.SendTx(attacker, "attack/owner/spot_update", &tradeshieldtypes.MsgUpdateSpotOrder{OwnerAddress: me, OrderId: o.OrderId, OrderPrice: np})
		}
	case 4:
		if len(foreignPerp) > 0 {
			o := foreignPerp[r.IntN(len(foreignPerp))]
			s.SendTx(attacker, "attack/owner/perp_order_cancel", &tradeshieldtypes.MsgCancelPerpetualOrder{OwnerAddress: me, OrderId: o.OrderId})
		}
	case 5:
		if len(foreignPerp) > 0 {
			o := foreignPerp[r.IntN(len(foreignPerp))]
			s.SendTx(attacker, "attack/owner/perp_order_cancel_batch", &tradeshieldtypes.MsgCancelPerpetualOrders{OwnerAddress: me, OrderIds: []uint64{o.OrderId}})
		}
	case 6:
		if len(foreignPerp) > 0 {
			var ids []uint64
			for _, o := range ownPerp {
				ids = append(ids, o.OrderId)
			}
			ids = append(ids, foreignPerp[r.IntN(len(foreignPerp))].OrderId)
			s.SendTx(attacker, "attack/owner/perp_order_cancel_batch_mixed", &tradeshieldtypes.MsgCancelPerpetualOrders{OwnerAddress: me, OrderIds: ids})
		}
	case 7:
		if len(foreignPerp) > 0 {
			o := foreignPerp[r.IntN(len(foreignPerp))]
			np := o.TriggerPrice
			np.Rate = np.Rate.Mul(decFromFloat(0.5 + r.Float64()))
			s.SendTx(attacker, "attack/owner/perp_order_update", &tradeshieldtypes.MsgUpdatePerpetualOrder{OwnerAddress: me, OrderId: o.OrderId, TriggerPrice: np})
		}
	}
}

// ---------------------------------------------------------------------------
// SquatterAgent: asset-profile entries can be added by any account in this tree (MsgAddEntry
// carries a creator, not an authority). The squatter registers, ahead of time, the share
// denom of a pool that does not exist yet with committing disabled, so that the pool's
// creation meets a failing commit inside its share-minting path (and every later join of
// that pool would, too).
type SquatterAgent struct {
	baseAgent
	done int
}

func (a *SquatterAgent) Step(s *Sim) {
	r := a.rng
	if s.Cfg.rate("escrowdust") > 0 && s.Height > 5 && r.Float64() < 0.15 {
		// predictable escrow addresses: a permanently locked base unit parked at the address of an
		// order that does not exist yet
		next := uint64(1)
		for _, o := range s.N0.App.TradeshieldKeeper.GetAllPendingSpotOrder(s.Ctx()) {
			if o.OrderId >= next {
				next = o.OrderId + 1
			}
		}
		u := s.user(r)
		addr := tradeshieldtypes.SpotOrder{OrderId: next + uint64(r.IntN(2))}.GetOrderAddress()
		s.SendTx(u, "squat/locked_dust_at_order_escrow", &vestingtypes.MsgCreatePermanentLockedAccount{FromAddress: u.Addr.String(), ToAddress: addr.String(), Amount: sdk.NewCoins(sdk.NewInt64Coin(DenomELYS, 1))})
		s.Stats.Probe("locked_dust_at_future_order_escrow_submitted")
	}
	if a.done >= 2 || s.Height < 1 || r.Float64() >= s.Cfg.rate("squatter") {
		return
	}
	ctx := s.Ctx()
	next := uint64(1)
	for _, p := range s.N0.App.AmmKeeper.GetAllPool(ctx) {
		if p.PoolId >= next {
			next = p.PoolId + 1
		}
	}
	id := next + uint64(r.IntN(2))
	u := s.user(r)
	denom := fmt.Sprintf("amm/pool/%d", id)
	s.SendTx(u, "squat/add_entry", &assetprofiletypes.MsgAddEntry{Creator: u.Addr.String(), BaseDenom: denom, Denom: denom, Decimals: 18, CommitEnabled: r.IntN(4) == 0, WithdrawEnabled: true})
	a.done++
	s.Stats.Probe("pool_share_denom_registered_ahead_of_pool_creation")
}
