package main

import (
	sdkmath "cosmossdk.io/math"

	commitmenttypes "github.com/elys-network/elys/x/commitment/types"
	estakingtypes "github.com/elys-network/elys/x/estaking/types"
	mastercheftypes "github.com/elys-network/elys/x/masterchef/types"
	stablestaketypes "github.com/elys-network/elys/x/stablestake/types"
	tokenomicstypes "github.com/elys-network/elys/x/tokenomics/types"
)

// CommitAgent: commitment / vesting / staking / reward-claim users.
type CommitAgent struct {
	baseAgent
	journey     int // step of the staker's journey in progress (0 = none)
	journeyUser *Account
}

// stakerJourney: one account goes through the life of a staker block by block - stake, withdraw the
// staking rewards, commit half of its claimed EdenB, then reduce the stake in several steps (each
// reduction burns EdenB in proportion; the burn takes the claimed bucket first and the committed one
// after it, with the reward hooks of the EdenB "validator" around it). Random traffic rarely lines
// these up on one account.
func (a *CommitAgent) stakerJourney(s *Sim) {
	r := a.rng
	if a.journey == 0 {
		if r.Float64() >= 0.03*s.Cfg.rate("commit") {
			return
		}
		a.journeyUser = s.user(r)
		a.journey = 1
		s.Stats.Probe("staker_journey_started")
	}
	u := a.journeyUser
	val := s.W.ValAddr.String()
	cm := s.N0.App.CommitmentKeeper.GetCommitments(s.Ctx(), u.Addr)
	switch a.journey {
	case 1:
		s.SendTx(u, "commit/journey_stake", &commitmenttypes.MsgStake{Creator: u.Addr.String(), Amount: logUniform(r, 1e6, 1e9), Asset: DenomELYS, ValidatorAddress: val})
	case 2:
		s.SendTx(u, "commit/journey_withdraw_all", &estakingtypes.MsgWithdrawAllRewards{DelegatorAddress: u.Addr.String()})
	case 3:
		if x := cm.GetClaimedForDenom(DenomEDENB); x.GT(sdkmath.OneInt()) {
			s.SendTx(u, "commit/journey_commit_edenb", &commitmenttypes.MsgCommitClaimedRewards{Creator: u.Addr.String(), Amount: x.QuoRaw(int64(2 + r.IntN(3))), Denom: DenomEDENB})
		}
	default:
		s.SendTx(u, "commit/journey_unstake", &commitmenttypes.MsgUnstake{Creator: u.Addr.String(), Amount: logUniform(r, 1e4, 1e7), Asset: DenomELYS, ValidatorAddress: val})
	}
	a.journey++
	if a.journey > 7 {
		a.journey = 0
	}
}

func (a *CommitAgent) Step(s *Sim) {
	r := a.rng
	rate := s.Cfg.rate("commit")
	ctx := s.Ctx()
	a.stakerJourney(s)
	n := 0
	for r.Float64() < rate && n < 4 {
		n++
		u := s.user(r)
		cm := s.N0.App.CommitmentKeeper.GetCommitments(ctx, u.Addr)
		edenClaimed := cm.GetClaimedForDenom(DenomEDEN)
		edenbClaimed := cm.GetClaimedForDenom(DenomEDENB)
		edenCommitted := cm.GetCommittedAmountForDenom(DenomEDEN)
		amtOf := func(x sdkmath.Int) sdkmath.Int {
			if !x.IsPositive() {
				return sdkmath.NewInt(int64(1 + r.IntN(1000)))
			}
			frac := []float64{1e-6, 0.01, 0.2, 0.5, 1.0, 1.5}[r.IntN(6)]
			v := sdkmath.LegacyNewDecFromInt(x).Mul(decFromFloat(frac)).TruncateInt()
			if v.IsZero() {
				v = sdkmath.OneInt()
			}
			return v
		}
		// vest liquid tokens when governance has added such a programme
		if r.IntN(6) == 0 {
			for _, vi := range s.N0.App.CommitmentKeeper.GetParams(ctx).VestingInfos {
				if vi.BaseDenom != DenomEDEN {
					s.SendTx(u, "commit/vest_liquid", &commitmenttypes.MsgVestLiquid{Creator: u.Addr.String(), Amount: s.uniq(logUniform(r, 10, 1e8)), Denom: vi.BaseDenom})
					break
				}
			}
			continue
		}
		switch r.IntN(14) {
		case 0, 1:
			s.SendTx(u, "commit/vest", &commitmenttypes.MsgVest{Creator: u.Addr.String(), Amount: amtOf(edenClaimed), Denom: DenomEDEN})
		case 2, 3, 4:
			s.SendTx(u, "commit/claim_vesting", &commitmenttypes.MsgClaimVesting{Sender: u.Addr.String()})
		case 5, 6:
			// cancel part of what is still vesting
			rem := sdkmath.ZeroInt()
			for _, v := range cm.VestingTokens {
				rem = rem.Add(v.TotalAmount.Sub(v.ClaimedAmount))
			}
			if rem.IsPositive() {
				s.Stats.Probe("cancel_vest_submitted")
			}
			s.SendTx(u, "commit/cancel_vest", &commitmenttypes.MsgCancelVest{Creator: u.Addr.String(), Amount: amtOf(rem), Denom: DenomEDEN})
		case 7:
			s.SendTx(u, "commit/vest_now", &commitmenttypes.MsgVestNow{Creator: u.Addr.String(), Amount: amtOf(edenClaimed), Denom: DenomEDEN})
		case 8:
			d := DenomEDEN
			x := edenClaimed
			if r.IntN(2) == 0 {
				d, x = DenomEDENB, edenbClaimed
			}
			s.SendTx(u, "commit/commit_claimed", &commitmenttypes.MsgCommitClaimedRewards{Creator: u.Addr.String(), Amount: amtOf(x), Denom: d})
		case 9:
			d := DenomEDEN
			x := edenCommitted
			if r.IntN(3) == 0 {
				d, x = DenomEDENB, cm.GetCommittedAmountForDenom(DenomEDENB)
			}
			s.SendTx(u, "commit/uncommit", &commitmenttypes.MsgUncommitTokens{Creator: u.Addr.String(), Amount: amtOf(x), Denom: d})
		case 10:
			// try to pull share tokens / locked tokens out through the generic uncommit message (must be refused)
			d := stablestaketypes.GetShareDenom()
			s.SendTx(u, "commit/uncommit_shares", &commitmenttypes.MsgUncommitTokens{Creator: u.Addr.String(), Amount: amtOf(cm.GetCommittedAmountForDenom(d)), Denom: d})
		case 11:
			asset := pick(r, []string{DenomELYS, DenomEDEN, DenomEDENB})
			amt := logUniform(r, 1e3, 1e9)
			s.SendTx(u, "commit/stake", &commitmenttypes.MsgStake{Creator: u.Addr.String(), Amount: amt, Asset: asset, ValidatorAddress: s.W.ValAddr.String()})
		case 12:
			asset := pick(r, []string{DenomELYS, DenomEDEN, DenomEDENB})
			amt := logUniform(r, 1e3, 1e8)
			s.SendTx(u, "commit/unstake", &commitmenttypes.MsgUnstake{Creator: u.Addr.String(), Amount: amt, Asset: asset, ValidatorAddress: s.W.ValAddr.String()})
		default:
			if s.Cfg.Genesis.Airdrops && r.IntN(12) == 0 {
				s.SendTx(u, "commit/claim_airdrop", &tokenomicstypes.MsgClaimAirdrop{Sender: u.Addr.String()})
				break
			}
			switch r.IntN(3) {
			case 0:
				var ids []uint64
				for _, p := range s.pools() {
					if r.IntN(2) == 0 {
						ids = append(ids, p.PoolId)
					}
				}
				if r.IntN(3) == 0 {
					ids = append(ids, stablestaketypes.PoolId)
				}
				if len(ids) > 0 && r.IntN(4) == 0 {
					// the list is a plain repeated field: the same pool named twice (or three times)
					for n := 1 + r.IntN(2); n > 0; n-- {
						ids = append(ids, ids[r.IntN(len(ids))])
					}
					s.Stats.Probe("claim_with_repeated_pool_id_submitted")
				}
				s.SendTx(u, "commit/masterchef_claim", &mastercheftypes.MsgClaimRewards{Sender: u.Addr.String(), PoolIds: ids})
			case 1:
				s.SendTx(u, "commit/estaking_withdraw_all", &estakingtypes.MsgWithdrawAllRewards{DelegatorAddress: u.Addr.String()})
			default:
				s.SendTx(u, "commit/estaking_withdraw_elys", &estakingtypes.MsgWithdrawElysStakingRewards{DelegatorAddress: u.Addr.String()})
			}
		}
	}
}
