package main

import (
	"math"
	"sort"
	"strings"

	sdkmath "cosmossdk.io/math"
	sdk "github.com/cosmos/cosmos-sdk/types"
	banktypes "github.com/cosmos/cosmos-sdk/x/bank/types"
	govv1 "github.com/cosmos/cosmos-sdk/x/gov/types/v1"

	ammtypes "github.com/elys-network/elys/x/amm/types"
	leveragelptypes "github.com/elys-network/elys/x/leveragelp/types"
	oracletypes "github.com/elys-network/elys/x/oracle/types"
	stablestaketypes "github.com/elys-network/elys/x/stablestake/types"
)

// ---------------------------------------------------------------------------
// Market: the "real world" price path the feeders report.

type Market struct {
	Price map[string]float64 // by display ticker
}

func newMarket() *Market {
	m := &Market{Price: map[string]float64{}}
	for _, a := range Universe {
		if a.Price0 != "" {
			f, _ := sdkmath.LegacyMustNewDecFromStr(a.Price0).Float64()
			m.Price[a.Display] = f
		}
	}
	return m
}

// ---------------------------------------------------------------------------
// FeederAgent: price feeders following the market, subject to outage faults.

type FeederAgent struct {
	baseAgent
	outageLeft  int
	outageAll   bool
	outageAsset string
}

func (a *FeederAgent) Step(s *Sim) {
	r := a.rng
	mk := s.Market
	// evolve the market (geometric walk with jumps)
	tick := make([]string, 0, len(mk.Price))
	for t := range mk.Price {
		tick = append(tick, t)
	}
	sort.Strings(tick)
	for _, t := range tick {
		if t == "USDC" {
			// stablecoin: tiny noise, rare depeg
			mk.Price[t] = 1 + (r.Float64()-0.5)*0.002
			continue
		}
		p := mk.Price[t] * math.Exp(r.NormFloat64()*s.Cfg.PriceVol)
		if s.Cfg.PriceJump > 0 && r.Float64() < s.Cfg.PriceJump {
			j := 0.4 + r.Float64()*1.2 // -60% .. +60%
			p *= j
			s.Stats.Probe("price_jump")
		}
		if p < 1e-4 {
			p = 1e-4
		}
		if p > 1e7 {
			p = 1e7
		}
		mk.Price[t] = p
	}
	// outage fault
	f := s.Cfg.Faults
	if a.outageLeft == 0 && f.OracleOutage > 0 && s.Height > 8 && r.Float64() < f.OracleOutage {
		a.outageLeft = 1 + r.IntN(max(1, f.OutageLen))
		a.outageAll = r.IntN(2) == 0
		a.outageAsset = pick(r, tick)
		s.Stats.Inc("fault/oracle_outage_started", 1)
	}
	var feeds []oracletypes.FeedPrice
	for _, t := range tick {
		if a.outageLeft > 0 && (a.outageAll || t == a.outageAsset) {
			s.Stats.Inc("fault/oracle_feed_withheld", 1)
			continue
		}
		feeds = append(feeds, oracletypes.FeedPrice{Asset: t, Price: decFromFloat(mk.Price[t]), Source: oracletypes.ELYS})
	}
	if a.outageLeft > 0 {
		a.outageLeft--
	}
	if len(feeds) == 0 {
		return
	}
	feeder := s.W.Feeders[int(s.Height)%len(s.W.Feeders)]
	s.SendTx(feeder, "feeder", &oracletypes.MsgFeedMultiplePrices{Creator: feeder.Addr.String(), FeedPrices: feeds})
}

// ---------------------------------------------------------------------------
// GovAgent: pushes authority messages through the real gov module.

type GovAgent struct {
	baseAgent
	queue []sdk.Msg
	voted map[uint64]bool
	seen  []sdk.Msg // every authority message governance has proposed (valid content for the attacker to re-sign)
}

func (a *GovAgent) Propose(m sdk.Msg) {
	a.queue = append(a.queue, m)
	if len(a.seen) < 64 {
		a.seen = append(a.seen, m)
	}
}

func (a *GovAgent) Step(s *Sim) {
	gov := s.W.GovAddr.String()
	// submit queued proposals (one per block)
	if len(a.queue) > 0 {
		m := a.queue[0]
		a.queue = a.queue[1:]
		prop, err := govv1.NewMsgSubmitProposal([]sdk.Msg{m}, sdk.NewCoins(sdk.NewInt64Coin(DenomELYS, 10_000_000)), s.W.ValOper.Addr.String(), "", "sim proposal", "sim", false)
		if err == nil {
			s.SendTx(s.W.ValOper, "gov/submit", prop)
		}
	}
	_ = gov
	// vote on everything in voting period
	ctx := s.Ctx()
	var ids []uint64
	_ = s.N0.App.GovKeeper.Proposals.Walk(ctx, nil, func(id uint64, p govv1.Proposal) (bool, error) {
		if p.Status == govv1.StatusVotingPeriod && !a.voted[id] {
			ids = append(ids, id)
		}
		return false, nil
	})
	for _, id := range ids {
		a.voted[id] = true
		s.SendTx(s.W.ValOper, "gov/vote", govv1.NewMsgVote(s.W.ValOper.Addr, id, govv1.OptionYes, ""))
	}
}

// ---------------------------------------------------------------------------
// BootstrapAgent: creates the initial pools and asks governance to enable
// leverage (and thereby perpetual trading) on oracle pools.

type poolPlan struct {
	other    string
	oracle   bool
	wUSDC    int64
	wOther   int64
	usdc     int64 // USDC side liquidity in base units
	leverage bool
}

type BootstrapAgent struct {
	baseAgent
	plans   []poolPlan
	created int
	asked   map[uint64]bool
}

func (a *BootstrapAgent) Step(s *Sim) {
	r := a.rng
	// the last planned pool may be held back (config LatePoolAt): pools that appear in the middle of
	// a history meet state that was prepared for them in advance (incentives, asset-profile entries)
	late := s.Cfg.LatePoolAt > 0 && a.created == len(a.plans)-1 && len(a.plans) > 2 && s.Height < s.Cfg.LatePoolAt
	if a.created < len(a.plans) && s.Height >= 1 && !late {
		p := a.plans[a.created]
		a.created++
		creator := s.W.Users[a.created%min(4, len(s.W.Users))]
		as := assetByDenom(p.other)
		price := 1.0
		if as.Price0 != "" {
			price = s.Market.Price[as.Display]
		}
		// other side sized to the same USD value (for oracle pools weights follow value)
		otherAmt := float64(p.usdc) / 1e6 / price * math.Pow10(int(as.Decimals))
		if !p.oracle {
			otherAmt = otherAmt * float64(p.wOther) / float64(p.wUSDC)
		}
		fee := decFromFloat(math.Floor(r.Float64()*s.Cfg.PoolFeeMax*10000) / 10000)
		assets := []ammtypes.PoolAsset{
			{Token: sdk.NewCoin(DenomUSDC, sdkmath.NewInt(p.usdc)), Weight: sdkmath.NewInt(p.wUSDC), ExternalLiquidityRatio: sdkmath.LegacyNewDec(int64(1 + r.IntN(3)))},
			{Token: sdk.NewCoin(p.other, sdkmath.NewInt(int64(otherAmt))), Weight: sdkmath.NewInt(p.wOther), ExternalLiquidityRatio: sdkmath.LegacyNewDec(int64(1 + r.IntN(3)))},
		}
		sort.Slice(assets, func(i, j int) bool { return assets[i].Token.Denom < assets[j].Token.Denom })
		s.SendTx(creator, "bootstrap/create_pool", &ammtypes.MsgCreatePool{
			Sender:     creator.Addr.String(),
			PoolParams: ammtypes.PoolParams{SwapFee: fee, UseOracle: p.oracle, FeeDenom: DenomUSDC},
			PoolAssets: assets,
		})
	}
	// ask gov to enable leverage on oracle pools that exist
	ctx := s.Ctx()
	for _, pool := range s.N0.App.AmmKeeper.GetAllPool(ctx) {
		if !pool.PoolParams.UseOracle || a.asked[pool.PoolId] {
			continue
		}
		if _, found := s.N0.App.LeveragelpKeeper.GetPool(ctx, pool.PoolId); found {
			continue
		}
		a.asked[pool.PoolId] = true
		s.Gov.Propose(&leveragelptypes.MsgAddPool{Authority: s.W.GovAddr.String(), Pool: leveragelptypes.AddPool{AmmPoolId: pool.PoolId, LeverageMax: sdkmath.LegacyNewDec(int64(2 + r.IntN(9)))}})
	}
}

func assetByDenom(d string) AssetDef {
	for _, a := range Universe {
		if a.Denom == d {
			return a
		}
	}
	return AssetDef{Denom: d, Decimals: 6}
}

// ---------------------------------------------------------------------------
// CanaryAgent (C18, bounded liveness once faults stop): during the cool-down at the end of
// a run it sends plain requests from a fresh-ish account every block - a bank transfer, a
// vault deposit, a small swap on the first pool - and counts whether they were served
// within the cool-down. Evidence only: a refused canary is not a violation of C18 as
// stated (block processing did not fail), it is reported as canary_refused/<kind>.
type CanaryAgent struct {
	baseAgent
	sent map[string]int64
}

func (a *CanaryAgent) Step(s *Sim) {
	if !s.cooling {
		return
	}
	u := s.W.Users[len(s.W.Users)-1]
	v := s.W.Users[0]
	s.SendTx(u, "canary/bank_send", &banktypes.MsgSend{FromAddress: u.Addr.String(), ToAddress: v.Addr.String(), Amount: sdk.NewCoins(sdk.NewInt64Coin(DenomUSDC, 1000))})
	s.SendTx(u, "canary/bond", &stablestaketypes.MsgBond{Creator: u.Addr.String(), Amount: sdkmath.NewInt(1_000_000)})
	s.SendTx(u, "canary/swap", &ammtypes.MsgSwapByDenom{Sender: u.Addr.String(), Amount: sdk.NewInt64Coin(DenomUSDC, 1_000_000), MinAmount: sdk.NewInt64Coin(DenomATOM, 0), DenomIn: DenomUSDC, DenomOut: DenomATOM, Recipient: u.Addr.String()})
}

func (a *CanaryAgent) Observe(s *Sim, eb *ExecBlock) {
	for _, t := range eb.Txs {
		if !strings.HasPrefix(t.Spec.Tag, "canary/") {
			continue
		}
		kind := strings.TrimPrefix(t.Spec.Tag, "canary/")
		if t.OK() {
			s.Stats.Inc("canary_served/"+kind, 1)
		} else {
			s.Stats.Inc("canary_refused/"+kind, 1)
			s.Stats.Inc("canary_refused_reason/"+kind+"/"+truncate(firstLine(t.Res.Log), 90), 1)
		}
	}
}
