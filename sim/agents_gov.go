package main

import (
	ammtypes "github.com/elys-network/elys/x/amm/types"
	sdkmath "cosmossdk.io/math"

	commitmenttypes "github.com/elys-network/elys/x/commitment/types"
	mastercheftypes "github.com/elys-network/elys/x/masterchef/types"
	oracletypes "github.com/elys-network/elys/x/oracle/types"
	stablestaketypes "github.com/elys-network/elys/x/stablestake/types"
)

// GovChaosAgent: governance changes parameters within the range Validate()
// permits, while positions, vestings and rewards are live.
type GovChaosAgent struct {
	baseAgent
	liquidVesting bool
	cyclePool     uint64
	cycleOn       bool
}

// edenCycle: governance switches one pool's Eden rewards on, off and on again with a few
// blocks of ordinary joins/exits in between (checkpoints of reward denoms that are
// temporarily not distributed).
func (a *GovChaosAgent) edenCycle(s *Sim) {
	const period = 11
	if s.Height < 10 || (s.Height-10)%period != 0 {
		return
	}
	if a.cyclePool == 0 {
		pools := s.pools()
		if len(pools) == 0 {
			return
		}
		a.cyclePool = pick(a.rng, pools).PoolId
	}
	a.cycleOn = !a.cycleOn
	s.Gov.Propose(&mastercheftypes.MsgTogglePoolEdenRewards{Authority: s.W.GovAddr.String(), PoolId: a.cyclePool, Enable: a.cycleOn})
	s.Stats.Probe("gov_eden_reward_cycle_step")
}

func (a *GovChaosAgent) Step(s *Sim) {
	r := a.rng
	if s.Cfg.EdenCycle {
		a.edenCycle(s)
	}
	if s.Height < 8 || r.Float64() >= s.Cfg.rate("govchaos")*0.25 {
		return
	}
	gov := s.W.GovAddr.String()
	app := s.N0.App
	ctx := s.Ctx()
	switch r.IntN(9) {
	case 8:
		// the amm's fee-splitting knobs, inside their meaningful range (the defaults - half of the
		// weight-breaking fee to the treasury, a tenth of the recovery fee - make several distinct
		// quantities coincide)
		p := app.AmmKeeper.GetParams(ctx)
		p.WeightBreakingFeePortion = sdkmath.LegacyMustNewDecFromStr(pick(r, []string{"0", "0.2", "0.5", "0.8", "1"}))
		p.WeightRecoveryFeePortion = sdkmath.LegacyMustNewDecFromStr(pick(r, []string{"0", "0.1", "0.5", "1"}))
		p.WeightBreakingFeeMultiplier = sdkmath.LegacyMustNewDecFromStr(pick(r, []string{"0.0005", "0.005", "0.05"}))
		p.ThresholdWeightDifference = sdkmath.LegacyMustNewDecFromStr(pick(r, []string{"0.05", "0.3", "0.6"}))
		s.Gov.Propose(&ammtypes.MsgUpdateParams{Authority: gov, Params: &p})
		s.Stats.Probe("gov_changes_amm_fee_split")
	case 0, 1:
		// a second vesting programme: liquid tokens vest into themselves (VestLiquid)
		d := pick(r, []string{DenomATOM, DenomUSDC})
		s.Gov.Propose(&commitmenttypes.MsgUpdateVestingInfo{Authority: gov, BaseDenom: d, VestingDenom: d, NumBlocks: int64(pick(r, []int{3, 10, 30})), VestNowFactor: int64(1 + r.IntN(5)), NumMaxVestings: int64(1 + r.IntN(6))})
		s.Stats.Probe("gov_adds_liquid_vesting_programme")
	case 2:
		// change the Eden programme mid-schedule
		s.Gov.Propose(&commitmenttypes.MsgUpdateVestingInfo{Authority: gov, BaseDenom: DenomEDEN, VestingDenom: DenomELYS, NumBlocks: int64(pick(r, []int{5, 17, 40, 100})), VestNowFactor: int64(pick(r, []int{1, 3, 90})), NumMaxVestings: int64(pick(r, []int{1, 2, 4, 10}))})
	case 3:
		p := app.MasterchefKeeper.GetParams(ctx)
		lp := pick(r, []string{"0", "0.3", "0.6", "1"})
		st := pick(r, []string{"0", "0.25", "0.4"})
		p.RewardPortionForLps = sdkmath.LegacyMustNewDecFromStr(lp)
		p.RewardPortionForStakers = sdkmath.LegacyMustNewDecFromStr(st)
		if p.RewardPortionForLps.Add(p.RewardPortionForStakers).GT(sdkmath.LegacyOneDec()) {
			p.RewardPortionForStakers = sdkmath.LegacyOneDec().Sub(p.RewardPortionForLps)
		}
		p.LpIncentives = nil
		s.Gov.Propose(&mastercheftypes.MsgUpdateParams{Authority: gov, Params: p})
	case 4:
		pools := s.pools()
		if len(pools) > 0 {
			p := pick(r, pools)
			s.Gov.Propose(&mastercheftypes.MsgTogglePoolEdenRewards{Authority: gov, PoolId: p.PoolId, Enable: r.IntN(3) != 0})
		}
	case 5:
		pools := s.pools()
		if len(pools) > 0 {
			p := pick(r, pools)
			s.Gov.Propose(&mastercheftypes.MsgUpdatePoolMultipliers{Authority: gov, PoolMultipliers: []mastercheftypes.PoolMultiplier{{PoolId: p.PoolId, Multiplier: sdkmath.LegacyMustNewDecFromStr(pick(r, []string{"0", "0.5", "1", "3"}))}}})
		}
	case 6:
		p := app.OracleKeeper.GetParams(ctx)
		p.PriceExpiryTime = pick(r, []uint64{20, 60, 600, 86400})
		p.LifeTimeInBlocks = pick(r, []uint64{1, 3, 10, 1000})
		s.Gov.Propose(&oracletypes.MsgUpdateParams{Authority: gov, Params: p})
	default:
		p := app.StablestakeKeeper.GetParams(ctx)
		p.InterestRateMax = sdkmath.LegacyMustNewDecFromStr(pick(r, []string{"0.17", "0.5", "3"}))
		p.InterestRateMin = sdkmath.LegacyMustNewDecFromStr(pick(r, []string{"0.01", "0.12"}))
		p.InterestRateIncrease = sdkmath.LegacyMustNewDecFromStr(pick(r, []string{"0.01", "0.2"}))
		// the leveraged-LP utilisation limit: above 0.9 the vault's own 90 % borrow cap becomes the binding one
		p.MaxLeverageRatio = sdkmath.LegacyMustNewDecFromStr(pick(r, []string{"0.7", "0.95", "2"}))
		s.Gov.Propose(&stablestaketypes.MsgUpdateParams{Authority: gov, Params: &p})
	}
}
