package main

import (
	"fmt"
	"math"
	"reflect"

	sdkmath "cosmossdk.io/math"
	sdk "github.com/cosmos/cosmos-sdk/types"

	ammtypes "github.com/elys-network/elys/x/amm/types"
	commitmenttypes "github.com/elys-network/elys/x/commitment/types"
	assetprofiletypes "github.com/elys-network/elys/x/assetprofile/types"
	parametertypes "github.com/elys-network/elys/x/parameter/types"
	tokenomicstypes "github.com/elys-network/elys/x/tokenomics/types"
	burnertypes "github.com/elys-network/elys/x/burner/types"
	estakingtypes "github.com/elys-network/elys/x/estaking/types"
	leveragelptypes "github.com/elys-network/elys/x/leveragelp/types"
	mastercheftypes "github.com/elys-network/elys/x/masterchef/types"
	oracletypes "github.com/elys-network/elys/x/oracle/types"
	perpetualtypes "github.com/elys-network/elys/x/perpetual/types"
	stablestaketypes "github.com/elys-network/elys/x/stablestake/types"
	tradeshieldtypes "github.com/elys-network/elys/x/tradeshield/types"
)

// GovEdgeAgent: "parameter settings permitted by validation" (C18). For every module
// with a MsgUpdateParams it takes the current parameters, moves ONE numeric / boolean
// field (found by reflection, so new fields are covered without a hand-written list) to
// an edge value, keeps the candidate only if the module's own Params.Validate() and the
// message's ValidateBasic() accept it, and sends it through the real governance module.
// Half of its proposals restore the parameters the chain started with, so that runs
// spend time on both sides of each edge.
type GovEdgeAgent struct {
	baseAgent
	initial map[string]any
	sent    int
}

type paramSource struct {
	name string
	get  func(s *Sim, ctx sdk.Context) any // current Params (by value)
	msg  func() sdk.Msg                    // empty MsgUpdateParams
}

var paramSources = []paramSource{
	{"amm", func(s *Sim, ctx sdk.Context) any { return s.N0.App.AmmKeeper.GetParams(ctx) }, func() sdk.Msg { return &ammtypes.MsgUpdateParams{} }},
	{"leveragelp", func(s *Sim, ctx sdk.Context) any { return s.N0.App.LeveragelpKeeper.GetParams(ctx) }, func() sdk.Msg { return &leveragelptypes.MsgUpdateParams{} }},
	{"perpetual", func(s *Sim, ctx sdk.Context) any { return s.N0.App.PerpetualKeeper.GetParams(ctx) }, func() sdk.Msg { return &perpetualtypes.MsgUpdateParams{} }},
	{"stablestake", func(s *Sim, ctx sdk.Context) any { return s.N0.App.StablestakeKeeper.GetParams(ctx) }, func() sdk.Msg { return &stablestaketypes.MsgUpdateParams{} }},
	{"masterchef", func(s *Sim, ctx sdk.Context) any { return s.N0.App.MasterchefKeeper.GetParams(ctx) }, func() sdk.Msg { return &mastercheftypes.MsgUpdateParams{} }},
	{"oracle", func(s *Sim, ctx sdk.Context) any { return s.N0.App.OracleKeeper.GetParams(ctx) }, func() sdk.Msg { return &oracletypes.MsgUpdateParams{} }},
	{"tradeshield", func(s *Sim, ctx sdk.Context) any { return s.N0.App.TradeshieldKeeper.GetParams(ctx) }, func() sdk.Msg { return &tradeshieldtypes.MsgUpdateParams{} }},
	{"burner", func(s *Sim, ctx sdk.Context) any { return s.N0.App.BurnerKeeper.GetParams(ctx) }, func() sdk.Msg { return &burnertypes.MsgUpdateParams{} }},
	{"estaking", func(s *Sim, ctx sdk.Context) any { return s.N0.App.EstakingKeeper.GetParams(ctx) }, func() sdk.Msg { return &estakingtypes.MsgUpdateParams{} }},
}

var (
	typDec = reflect.TypeOf(sdkmath.LegacyDec{})
	typInt = reflect.TypeOf(sdkmath.Int{})
)

// leafFields collects the addressable numeric/bool leaves of a params struct.
func leafFields(v reflect.Value, path string, out *[]leaf) {
	switch {
	case v.Type() == typDec || v.Type() == typInt:
		*out = append(*out, leaf{path, v})
		return
	}
	switch v.Kind() {
	case reflect.Struct:
		for i := 0; i < v.NumField(); i++ {
			f := v.Type().Field(i)
			if !f.IsExported() {
				continue
			}
			leafFields(v.Field(i), path+"."+f.Name, out)
		}
	case reflect.Ptr:
		if !v.IsNil() {
			leafFields(v.Elem(), path, out)
		}
	case reflect.Slice:
		for i := 0; i < v.Len() && i < 2; i++ {
			leafFields(v.Index(i), fmt.Sprintf("%s[%d]", path, i), out)
		}
	case reflect.Int, reflect.Int32, reflect.Int64, reflect.Uint32, reflect.Uint64, reflect.Bool:
		*out = append(*out, leaf{path, v})
	case reflect.String:
		// addresses, denoms, channel ids: the edge is the empty string (a proposal assembled from the
		// module's default parameters carries it wherever genesis initialisation fills in a derived value)
		if v.CanSet() && v.String() != "" {
			*out = append(*out, leaf{path, v})
		}
	}
}

type leaf struct {
	path string
	v    reflect.Value
}

func (a *GovEdgeAgent) Step(s *Sim) {
	r := a.rng
	ctx := s.Ctx()
	if a.initial == nil {
		a.initial = map[string]any{}
		for _, src := range paramSources {
			a.initial[src.name] = src.get(s, ctx)
		}
	}
	if s.Height < 10 || a.sent >= 40 || r.Float64() >= s.Cfg.rate("govedge")*0.5 {
		return
	}
	if r.IntN(3) == 0 {
		a.structural(s)
		return
	}
	src := paramSources[r.IntN(len(paramSources))]
	gov := s.W.GovAddr.String()
	build := func(params any) sdk.Msg {
		m := src.msg()
		rv := reflect.ValueOf(m).Elem()
		rv.FieldByName("Authority").SetString(gov)
		f := rv.FieldByName("Params")
		if f.Kind() == reflect.Ptr {
			p := reflect.New(f.Type().Elem())
			p.Elem().Set(reflect.ValueOf(params))
			f.Set(p)
		} else {
			f.Set(reflect.ValueOf(params))
		}
		return m
	}
	if r.IntN(3) == 0 && a.sent > 0 {
		s.Gov.Propose(build(a.initial[src.name]))
		s.Stats.Inc("govedge/restore_initial", 1)
		a.sent++
		return
	}
	for try := 0; try < 6; try++ {
		cur := src.get(s, ctx)
		pv := reflect.New(reflect.TypeOf(cur))
		pv.Elem().Set(reflect.ValueOf(cur))
		var leaves []leaf
		leafFields(pv.Elem(), "", &leaves)
		if len(leaves) == 0 {
			return
		}
		lf := leaves[r.IntN(len(leaves))]
		desc := ""
		zero := r.IntN(3) == 0 // zero is the edge most often forgotten (denominators, modulus)
		switch {
		case lf.v.Kind() == reflect.String:
			lf.v.SetString("")
			desc = `""`
		case zero && lf.v.Type() == typDec:
			lf.v.Set(reflect.ValueOf(sdkmath.LegacyZeroDec()))
			desc = "0"
		case zero && lf.v.Type() == typInt:
			lf.v.Set(reflect.ValueOf(sdkmath.ZeroInt()))
			desc = "0"
		case zero && (lf.v.Kind() == reflect.Uint32 || lf.v.Kind() == reflect.Uint64):
			lf.v.SetUint(0)
			desc = "0"
		case zero && lf.v.Kind() != reflect.Bool:
			lf.v.SetInt(0)
			desc = "0"
		case lf.v.Type() == typDec:
			x := sdkmath.LegacyMustNewDecFromStr(pick(r, []string{"0", "0.000000000000000001", "0.5", "1", "1.000000000000000001", "100", "1000000000000", "-1"}))
			lf.v.Set(reflect.ValueOf(x))
			desc = x.String()
		case lf.v.Type() == typInt:
			x, _ := sdkmath.NewIntFromString(pick(r, []string{"0", "1", "-1", "1000000000000000000000000000000"}))
			lf.v.Set(reflect.ValueOf(x))
			desc = x.String()
		case lf.v.Kind() == reflect.Bool:
			lf.v.SetBool(!lf.v.Bool())
			desc = fmt.Sprint(lf.v.Bool())
		case lf.v.Kind() == reflect.Uint32 || lf.v.Kind() == reflect.Uint64:
			x := pick(r, []uint64{0, 1, 2, math.MaxUint32, 1 << 62})
			if lf.v.Kind() == reflect.Uint32 && x > math.MaxUint32 {
				x = math.MaxUint32
			}
			lf.v.SetUint(x)
			desc = fmt.Sprint(x)
		default:
			x := pick(r, []int64{0, 1, -1, 2, math.MaxInt32, 1 << 62})
			if lf.v.Kind() == reflect.Int32 && (x > math.MaxInt32) {
				x = math.MaxInt32
			}
			lf.v.SetInt(x)
			desc = fmt.Sprint(x)
		}
		// the module's own validation decides whether the setting is permitted
		ok := true
		func() {
			defer func() {
				if recover() != nil {
					ok = false
				}
			}()
			if v, is := pv.Interface().(interface{ Validate() error }); is {
				if v.Validate() != nil {
					ok = false
				}
			} else if v, is := pv.Elem().Interface().(interface{ Validate() error }); is {
				if v.Validate() != nil {
					ok = false
				}
			}
			m := build(pv.Elem().Interface())
			if vb, is := m.(sdk.HasValidateBasic); is && ok {
				if vb.ValidateBasic() != nil {
					ok = false
				}
			}
			if ok {
				s.Gov.Propose(m)
			}
		}()
		if !ok {
			s.Stats.Inc("govedge/rejected_by_validation", 1)
			continue
		}
		a.sent++
		s.Stats.Inc("govedge/proposed", 1)
		s.Stats.Inc("govedge/proposed/"+src.name+lf.path+"="+desc, 1)
		return
	}
}

// structural: governance messages that are not a Params struct - pool parameters, pool and asset
// listings, chain-wide constants, inflation schedules - with valid references and ONE edge in the
// content; kept only if the message's own ValidateBasic accepts it.
func (a *GovEdgeAgent) structural(s *Sim) {
	r := a.rng
	ctx := s.Ctx()
	app := s.N0.App
	gov := s.W.GovAddr.String()
	var msg sdk.Msg
	desc := ""
	pools := app.AmmKeeper.GetAllPool(ctx)
	switch r.IntN(10) {
	case 9:
		nb := pick(r, []int64{0, 1, 1 << 62})
		f := pick(r, []int64{0, 1, 1 << 62})
		mv := pick(r, []int64{0, 1, 1 << 40})
		which := r.IntN(3)
		m := &commitmenttypes.MsgUpdateVestingInfo{Authority: gov, BaseDenom: DenomEDEN, VestingDenom: DenomELYS, NumBlocks: 20, VestNowFactor: 3, NumMaxVestings: 5}
		switch which {
		case 0:
			m.NumBlocks = nb
			desc = fmt.Sprintf("commitment.VestingInfo.NumBlocks=%d", nb)
		case 1:
			m.VestNowFactor = f
			desc = fmt.Sprintf("commitment.VestingInfo.VestNowFactor=%d", f)
		default:
			m.NumMaxVestings = mv
			desc = fmt.Sprintf("commitment.VestingInfo.NumMaxVestings=%d", mv)
		}
		msg = m
	case 0, 1:
		if len(pools) == 0 {
			return
		}
		p := pick(r, pools)
		pp := p.PoolParams
		switch r.IntN(3) {
		case 0:
			pp.SwapFee = sdkmath.LegacyMustNewDecFromStr(pick(r, []string{"0", "0.000000000000000001", "0.5", "0.999999999999999999", "1", "2"}))
			desc = "amm.UpdatePoolParams.SwapFee=" + pp.SwapFee.String()
		case 1:
			pp.UseOracle = !pp.UseOracle
			desc = fmt.Sprintf("amm.UpdatePoolParams.UseOracle=%v", pp.UseOracle)
		default:
			pp.FeeDenom = pick(r, []string{otherDenom(p, DenomUSDC), DenomINC, "unknown"})
			desc = "amm.UpdatePoolParams.FeeDenom=" + pp.FeeDenom
		}
		msg = &ammtypes.MsgUpdatePoolParams{Authority: gov, PoolId: p.PoolId, PoolParams: pp}
	case 2:
		lps := app.LeveragelpKeeper.GetAllPools(ctx)
		if len(lps) == 0 {
			return
		}
		lp := pick(r, lps)
		if r.IntN(2) == 0 {
			msg = &leveragelptypes.MsgRemovePool{Authority: gov, Id: lp.AmmPoolId}
			desc = "leveragelp.RemovePool"
		} else {
			msg = &leveragelptypes.MsgAddPool{Authority: gov, Pool: leveragelptypes.AddPool{AmmPoolId: lp.AmmPoolId, LeverageMax: sdkmath.LegacyMustNewDecFromStr(pick(r, []string{"1.000000000000000001", "2", "1000000"}))}}
			desc = "leveragelp.AddPool(existing)"
		}
	case 3:
		x := pick(r, []uint64{1, 2, 1000, 1 << 62, math.MaxUint64})
		msg = &parametertypes.MsgUpdateTotalBlocksPerYear{Creator: gov, TotalBlocksPerYear: x}
		desc = fmt.Sprintf("parameter.TotalBlocksPerYear=%d", x)
	case 4:
		x := pick(r, []uint64{1, 60, 1 << 62, math.MaxUint64})
		msg = &parametertypes.MsgUpdateRewardsDataLifetime{Creator: gov, RewardsDataLifetime: x}
		desc = fmt.Sprintf("parameter.RewardsDataLifetime=%d", x)
	case 5:
		// an asset-profile entry owned by governance: decimals or the commit/withdraw switches change
		base := pick(r, []string{DenomATOM, DenomUSDC, DenomINC, DenomELYS})
		e, found := app.AssetprofileKeeper.GetEntry(ctx, base)
		if !found {
			return
		}
		m := &assetprofiletypes.MsgUpdateEntry{Authority: gov, BaseDenom: e.BaseDenom, Decimals: e.Decimals, Denom: e.Denom, Path: e.Path, IbcChannelId: e.IbcChannelId,
			IbcCounterpartyChannelId: e.IbcCounterpartyChannelId, DisplayName: e.DisplayName, DisplaySymbol: e.DisplaySymbol, Network: e.Network, Address: e.Address,
			ExternalSymbol: e.ExternalSymbol, TransferLimit: e.TransferLimit, Permissions: e.Permissions, UnitDenom: e.UnitDenom, IbcCounterpartyDenom: e.IbcCounterpartyDenom,
			IbcCounterpartyChainId: e.IbcCounterpartyChainId, CommitEnabled: e.CommitEnabled, WithdrawEnabled: e.WithdrawEnabled}
		switch r.IntN(3) {
		case 0:
			m.Decimals = pick(r, []uint64{6, 8, 18})
			desc = fmt.Sprintf("assetprofile.UpdateEntry(%s).Decimals=%d", base, m.Decimals)
		case 1:
			m.CommitEnabled = !m.CommitEnabled
			desc = fmt.Sprintf("assetprofile.UpdateEntry(%s).CommitEnabled=%v", base, m.CommitEnabled)
		default:
			m.WithdrawEnabled = !m.WithdrawEnabled
			desc = fmt.Sprintf("assetprofile.UpdateEntry(%s).WithdrawEnabled=%v", base, m.WithdrawEnabled)
		}
		msg = m
	case 6:
		base := pick(r, []string{DenomINC, DenomATOM, DenomTIA, DenomUSDC})
		msg = &assetprofiletypes.MsgDeleteEntry{Authority: gov, BaseDenom: base}
		desc = "assetprofile.DeleteEntry(" + base + ")"
	case 7:
		d := pick(r, []string{DenomATOM, DenomTIA, DenomUSDC, DenomELYS})
		msg = &oracletypes.MsgRemoveAssetInfo{Authority: gov, Denom: d}
		desc = "oracle.RemoveAssetInfo(" + d + ")"
	default:
		x := pick(r, []uint64{0, 1, 1 << 40, 1 << 62, math.MaxUint64})
		inf := &tokenomicstypes.InflationEntry{LmRewards: x, IcsStakingRewards: x, CommunityFund: 1, StrategicReserve: 1, TeamTokensVested: 1}
		if r.IntN(2) == 0 {
			msg = &tokenomicstypes.MsgUpdateGenesisInflation{Authority: gov, Inflation: inf, SeedVesting: 1, StrategicSalesVesting: 1}
			desc = fmt.Sprintf("tokenomics.GenesisInflation=%d", x)
		} else {
			msg = &tokenomicstypes.MsgCreateTimeBasedInflation{Authority: gov, StartBlockHeight: uint64(s.Height + 3), EndBlockHeight: uint64(s.Height + 40), Description: "sim", Inflation: inf}
			desc = fmt.Sprintf("tokenomics.TimeBasedInflation=%d", x)
		}
	}
	if msg == nil {
		return
	}
	ok := true
	func() {
		defer func() {
			if recover() != nil {
				ok = false
			}
		}()
		if vb, is := msg.(sdk.HasValidateBasic); is && vb.ValidateBasic() != nil {
			ok = false
		}
	}()
	if !ok {
		s.Stats.Inc("govedge/rejected_by_validation", 1)
		return
	}
	s.Gov.Propose(msg)
	a.sent++
	s.Stats.Inc("govedge/proposed", 1)
	s.Stats.Inc("govedge/proposed/"+desc, 1)
}
