package main

import (
	sdkmath "cosmossdk.io/math"

	mastercheftypes "github.com/elys-network/elys/x/masterchef/types"
)

// IncentiveAgent funds external incentives (overlapping ranges, several pools).
type IncentiveAgent struct {
	baseAgent
}

func (a *IncentiveAgent) Step(s *Sim) {
	r := a.rng
	if r.Float64() >= s.Cfg.rate("incentive")*0.4 {
		return
	}
	pools := s.pools()
	if len(pools) == 0 {
		return
	}
	u := s.user(r)
	p := pick(r, pools)
	from := s.Height + 1 + int64(r.IntN(4))
	to := from + 1 + int64(r.IntN(30))
	if r.IntN(6) == 0 {
		// an incentive for the pool that does not exist yet (ids are predictable), with a short range
		// that may be over before the pool appears; also the vault's reward pool
		next := uint64(1)
		for _, q := range pools {
			if q.PoolId >= next {
				next = q.PoolId + 1
			}
		}
		p.PoolId = pick(r, []uint64{next, next, 32767})
		to = from + 1 + int64(r.IntN(6))
		s.Stats.Probe("incentive_for_pool_without_info_submitted")
	}
	per := s.uniq(logUniform(r, 10, 5e7))
	if per.MulRaw(to - from).LT(sdkmath.NewInt(1000)) {
		per = sdkmath.NewInt(1000)
	}
	d := DenomINC
	if r.IntN(5) == 0 {
		d = DenomUSDC // not a supported reward denom unless governance adds it: must be refused
	}
	s.SendTx(u, "incentive/add", &mastercheftypes.MsgAddExternalIncentive{Sender: u.Addr.String(), RewardDenom: d, PoolId: p.PoolId, FromBlock: from, ToBlock: to, AmountPerBlock: per})
}
