package main

import (
	authtypes "github.com/cosmos/cosmos-sdk/x/auth/types"
	sdkmath "cosmossdk.io/math"
	sdk "github.com/cosmos/cosmos-sdk/types"

	leveragelptypes "github.com/elys-network/elys/x/leveragelp/types"
	perpetualtypes "github.com/elys-network/elys/x/perpetual/types"
	stablestaketypes "github.com/elys-network/elys/x/stablestake/types"
)

// ---------------------------------------------------------------------------
// LenderAgent: stablestake bond / unbond

type LenderAgent struct {
	baseAgent
	runAt int64
}

func (a *LenderAgent) Step(s *Sim) {
	r := a.rng
	rate := s.Cfg.rate("lender")
	// bank run: once in some runs every lender asks for everything in the same block (the vault
	// can pay only what is not lent out; what happens to the share price and to the books when
	// the cash runs dry in the middle of a block?)
	if a.runAt == 0 {
		a.runAt = -1
		if r.IntN(3) == 0 {
			a.runAt = int64(20 + r.IntN(max(1, s.Cfg.Horizon-30)))
		}
	}
	if s.Height == a.runAt {
		shareDenom := stablestaketypes.GetShareDenom()
		for _, u := range s.W.Users {
			cm := s.N0.App.CommitmentKeeper.GetCommitments(s.Ctx(), u.Addr)
			if have := cm.GetCommittedAmountForDenom(shareDenom); have.IsPositive() {
				s.SendTx(u, "lender/bank_run", &stablestaketypes.MsgUnbond{Creator: u.Addr.String(), Amount: have})
			}
		}
		s.Stats.Probe("vault_bank_run_submitted")
		return
	}
	// make sure the vault has something early on
	if s.Height < 6 {
		rate = 1
	}
	n := 0
	for r.Float64() < rate && n < 3 {
		n++
		u := s.user(r)
		shareDenom := stablestaketypes.GetShareDenom()
		cm := s.N0.App.CommitmentKeeper.GetCommitments(s.Ctx(), u.Addr)
		have := cm.GetCommittedAmountForDenom(shareDenom)
		if have.IsPositive() && r.Float64() < 0.4 {
			frac := []float64{1e-6, 0.01, 0.3, 0.99, 1.0}[r.IntN(5)]
			amt := sdkmath.LegacyNewDecFromInt(have).Mul(decFromFloat(frac)).TruncateInt()
			if amt.IsZero() {
				amt = sdkmath.OneInt()
			}
			s.SendTx(u, "lender/unbond", &stablestaketypes.MsgUnbond{Creator: u.Addr.String(), Amount: amt})
			continue
		}
		amt := s.uniq(logUniform(r, 1, 2e11))
		if r.Float64() < 0.1 {
			amt = sdkmath.NewInt(int64(1 + r.IntN(5))) // dust
		}
		s.SendTx(u, "lender/bond", &stablestaketypes.MsgBond{Creator: u.Addr.String(), Amount: amt})
		if r.Float64() < 0.15 {
			// deposit then immediately withdraw the shares received (same block, right behind the bond)
			rate := s.N0.App.StablestakeKeeper.GetRedemptionRate(s.Ctx())
			if rate.IsPositive() {
				sh := amt.ToLegacyDec().Quo(rate).RoundInt()
				if sh.IsPositive() {
					s.SendTx(u, "lender/unbond_round_trip", &stablestaketypes.MsgUnbond{Creator: u.Addr.String(), Amount: sh})
				}
			}
		}
	}
}

// ---------------------------------------------------------------------------
// LevLPAgent: leveraged-LP users

type LevLPAgent struct {
	baseAgent
}

func (a *LevLPAgent) Step(s *Sim) {
	r := a.rng
	rate := s.Cfg.rate("levlp")
	ctx := s.Ctx()
	k := s.N0.App.LeveragelpKeeper
	pools := k.GetAllPools(ctx)
	if len(pools) == 0 {
		return
	}
	n := 0
	for r.Float64() < rate && n < 3 {
		n++
		u := s.user(r)
		// existing positions of this user
		var mine []*leveragelptypes.Position
		for _, p := range k.GetAllPositions(ctx) {
			if p.Address == u.Addr.String() {
				pp := p
				mine = append(mine, &pp)
			}
		}
		act := r.IntN(10)
		if len(mine) == 0 || act < 4 {
			p := pick(r, pools)
			lev := decFromFloat(1.1 + r.Float64()*9)
			if r.Float64() < 0.1 {
				lev = sdkmath.LegacyNewDec(1) // add collateral to an existing position (consolidation with leverage 1)
			} else if r.Float64() < 0.06 {
				// a hair above 1: the loan truncates to nothing, the position is debt-free
				lev = sdkmath.LegacyOneDec().Add(sdkmath.LegacyNewDecWithPrec(1, int64(6+r.IntN(12))))
				s.Stats.Probe("levlp_open_with_vanishing_loan_submitted")
			}
			coll := s.uniq(logUniform(r, 1e4, 5e9))
			if r.Float64() < 0.05 {
				coll = sdkmath.NewInt(int64(1 + r.IntN(50)))
			}
			// edge opens: sized so that the loan lands around what the vault can still lend
			// (utilisation limits of leveragelp and the vault's own cap are approached from both sides)
			if r.IntN(5) == 0 && lev.GT(sdkmath.LegacyOneDec()) {
				sp := s.N0.App.StablestakeKeeper.GetParams(ctx)
				cash := s.N0.App.BankKeeper.GetBalance(ctx, authtypes.NewModuleAddress(stablestaketypes.ModuleName), DenomUSDC).Amount
				room := sp.TotalValue.MulRaw(9).QuoRaw(10).Sub(sp.TotalValue.Sub(cash))
				if room.IsPositive() {
					target := sdkmath.LegacyNewDecFromInt(room).Mul(decFromFloat(0.5 + r.Float64()*0.7))
					if c := target.Quo(lev.Sub(sdkmath.LegacyOneDec())).TruncateInt(); c.IsPositive() {
						coll = s.uniq(c)
						s.Stats.Probe("levlp_open_sized_against_vault_room_submitted")
					}
				}
			}
			sl := sdkmath.LegacyZeroDec()
			if r.Float64() < 0.4 {
				// LP token price is around 1 USD * something; draw around the current price
				ammPool, found := s.N0.App.AmmKeeper.GetPool(ctx, p.AmmPoolId)
				if found {
					if price, err := ammPool.LpTokenPrice(ctx, s.N0.App.OracleKeeper, s.N0.App.AccountedPoolKeeper); err == nil {
						sl = price.Mul(decFromFloat(0.7 + r.Float64()*0.35))
						if r.IntN(2) == 0 {
							// a stop-loss a hair below the market: any mis-measurement of the LP price
							// (a stale pool, a wrong basis) closes a position that should stay open
							sl = price.Mul(decFromFloat(0.985 + r.Float64()*0.0149))
						}
					}
				}
			}
			if len(mine) > 0 {
				s.Stats.Probe("levlp_consolidating_open_submitted")
			}
			s.SendTx(u, "levlp/open", &leveragelptypes.MsgOpen{Creator: u.Addr.String(), CollateralAsset: DenomUSDC, CollateralAmount: coll, AmmPoolId: p.AmmPoolId, Leverage: lev, StopLossPrice: sl})
			continue
		}
		pos := pick(r, mine)
		switch {
		case act < 7:
			frac := []float64{0.01, 0.3, 0.5, 1.0, 1.0}[r.IntN(5)]
			lp := sdkmath.LegacyNewDecFromInt(pos.LeveragedLpAmount).Mul(decFromFloat(frac)).TruncateInt()
			if frac < 1 {
				s.Stats.Probe("levlp_partial_close_submitted")
			}
			if r.IntN(8) == 0 {
				// everything but dust: the close ratio rounds to 1 while a remainder stays
				// the remainder ranges from 1 share unit to what is worth about a base unit of the
				// deposit token (shares have 18 decimals): ratios that round to 1, exits that pay 0
				dust := sdkmath.NewIntWithDecimal(int64(1+r.IntN(9)), r.IntN(14))
				if dust.LT(pos.LeveragedLpAmount) {
					lp = pos.LeveragedLpAmount.Sub(dust)
				}
				s.Stats.Probe("levlp_all_but_dust_close_submitted")
			}
			s.SendTx(u, "levlp/close", &leveragelptypes.MsgClose{Creator: u.Addr.String(), Id: pos.Id, LpAmount: lp})
		case act < 8:
			ammPool, found := s.N0.App.AmmKeeper.GetPool(ctx, pos.AmmPoolId)
			if !found {
				continue
			}
			price, err := ammPool.LpTokenPrice(ctx, s.N0.App.OracleKeeper, s.N0.App.AccountedPoolKeeper)
			if err != nil {
				continue
			}
			s.SendTx(u, "levlp/update_sl", &leveragelptypes.MsgUpdateStopLoss{Creator: u.Addr.String(), Position: pos.Id, Price: price.Mul(decFromFloat(0.8 + r.Float64()*0.3))})
		case act < 9:
			ids := []uint64{pos.Id}
			if r.IntN(4) == 0 {
				ids = append(ids, pos.Id) // the same position named twice
				s.Stats.Probe("levlp_claim_with_repeated_id_submitted")
			}
			s.SendTx(u, "levlp/claim", &leveragelptypes.MsgClaimRewards{Sender: u.Addr.String(), Ids: ids})
		default:
			// the owner names its own position in the permissionless close-positions message
			// (a way round the lock-up and the close rules if the handler lets it through)
			req := &leveragelptypes.PositionRequest{Address: u.Addr.String(), Id: pos.Id}
			msg := &leveragelptypes.MsgClosePositions{Creator: u.Addr.String()}
			if r.IntN(2) == 0 {
				msg.Liquidate = []*leveragelptypes.PositionRequest{req}
			} else {
				msg.StopLoss = []*leveragelptypes.PositionRequest{req}
			}
			s.SendTx(u, "levlp/self_close_positions", msg)
		}
	}
}

// ---------------------------------------------------------------------------
// PerpAgent: perpetual traders

type PerpAgent struct {
	baseAgent
}

func (a *PerpAgent) Step(s *Sim) {
	r := a.rng
	rate := s.Cfg.rate("perp")
	ctx := s.Ctx()
	k := s.N0.App.PerpetualKeeper
	pools := k.GetAllPools(ctx)
	if len(pools) == 0 {
		return
	}
	n := 0
	for r.Float64() < rate && n < 3 {
		n++
		u := s.user(r)
		var mine []perpetualtypes.MTP
		for _, m := range k.GetAllMTPs(ctx) {
			if m.Address == u.Addr.String() {
				mine = append(mine, m)
			}
		}
		act := r.IntN(10)
		if len(mine) == 0 || act < 4 {
			pp := pick(r, pools)
			ammPool, found := s.N0.App.AmmKeeper.GetPool(ctx, pp.AmmPoolId)
			if !found {
				continue
			}
			trading := otherDenom(ammPool, DenomUSDC)
			price, err := k.GetAssetPrice(ctx, trading)
			if err != nil || price.IsZero() {
				// oracle outage: still try (must fail cleanly)
				price = sdkmath.LegacyOneDec()
			}
			pos := perpetualtypes.Position_LONG
			collDenom := DenomUSDC
			if r.IntN(3) == 0 {
				pos = perpetualtypes.Position_SHORT
			} else if r.IntN(2) == 0 {
				collDenom = trading
			}
			lev := decFromFloat(1.1 + r.Float64()*8)
			if len(mine) > 0 && r.Float64() < 0.3 {
				lev = sdkmath.LegacyZeroDec() // add collateral
				s.Stats.Probe("perp_add_collateral_submitted")
			}
			// collateral in USD terms 0.01 .. 20000
			usd := logUniform(r, 1e4, 2e10)
			// edge opens: as much leverage as the parameters allow, sized against the pool's depth
			// (price impact, pool-health and position-health limits are reached from the inside)
			if r.IntN(4) == 0 {
				if mx := k.GetParams(ctx).LeverageMax; !mx.IsNil() && mx.GT(sdkmath.LegacyOneDec()) && !lev.IsZero() {
					lev = mx.Mul(decFromFloat(0.85 + r.Float64()*0.15))
					s.Stats.Probe("perp_open_near_max_leverage_submitted")
				}
			}
			if r.IntN(4) == 0 {
				for _, pa := range ammPool.PoolAssets {
					if pa.Token.Denom == DenomUSDC && pa.Token.Amount.IsPositive() {
						usd = sdkmath.LegacyNewDecFromInt(pa.Token.Amount).Mul(decFromFloat(0.003 + r.Float64()*0.12)).TruncateInt()
						s.Stats.Probe("perp_open_sized_against_pool_submitted")
					}
				}
			}
			coll := usd
			if collDenom != DenomUSDC {
				as := assetByDenom(collDenom)
				f, _ := price.Float64()
				if f <= 0 {
					f = 1
				}
				u64, _ := sdkmath.LegacyNewDecFromInt(usd).Float64()
				coll = sdkmath.NewInt(int64(u64/1e6/f*pow10f(as.Decimals)) + 1)
			}
			coll = s.uniq(coll)
			var tp, sl sdkmath.LegacyDec
			if pos == perpetualtypes.Position_LONG {
				tp = price.Mul(decFromFloat(1.03 + r.Float64()*4))
				sl = sdkmath.LegacyZeroDec()
				if r.Float64() < 0.4 {
					sl = price.Mul(decFromFloat(0.5 + r.Float64()*0.49))
				}
			} else {
				tp = price.Mul(decFromFloat(0.2 + r.Float64()*0.77))
				sl = sdkmath.LegacyZeroDec()
				if r.Float64() < 0.4 {
					sl = price.Mul(decFromFloat(1.01 + r.Float64()*0.6))
				}
			}
			s.SendTx(u, "perp/open", &perpetualtypes.MsgOpen{Creator: u.Addr.String(), Position: pos, Leverage: lev, TradingAsset: trading, Collateral: sdk.NewCoin(collDenom, coll), TakeProfitPrice: tp, StopLossPrice: sl, PoolId: pp.AmmPoolId})
			continue
		}
		m := pick(r, mine)
		price, err := k.GetAssetPrice(ctx, m.TradingAsset)
		if err != nil {
			price = sdkmath.LegacyOneDec()
		}
		// a position drifting towards liquidation: the owner tops it up with a token amount that
		// cannot really rescue it (the re-open's health check is exercised right at the limit)
		if ammPool, err := k.GetAmmPool(ctx, m.AmmPoolId); err == nil {
			if h, err := k.GetMTPHealth(ctx, m, ammPool, DenomUSDC); err == nil && h.LT(k.GetParams(ctx).SafetyFactor.Mul(decFromFloat(1.25))) && r.IntN(2) == 0 {
				s.Stats.Probe("perp_token_topup_near_liquidation_submitted")
				s.SendTx(u, "perp/topup_near_liquidation", &perpetualtypes.MsgOpen{Creator: u.Addr.String(), Position: m.Position, Leverage: sdkmath.LegacyZeroDec(), TradingAsset: m.TradingAsset,
					Collateral: sdk.NewCoin(m.CollateralAsset, s.uniq(sdkmath.NewInt(int64(1+r.IntN(2000))))), TakeProfitPrice: m.TakeProfitPrice, StopLossPrice: sdkmath.LegacyZeroDec(), PoolId: m.AmmPoolId})
				continue
			}
		}
		switch {
		case act < 7:
			frac := []float64{0.01, 0.3, 0.5, 1.0, 1.0}[r.IntN(5)]
			amt := sdkmath.LegacyNewDecFromInt(m.Custody).Mul(decFromFloat(frac)).TruncateInt()
			if frac < 1 {
				s.Stats.Probe("perp_partial_close_submitted")
			}
			if r.IntN(8) == 0 && m.Custody.GT(sdkmath.NewInt(10)) {
				amt = m.Custody.SubRaw(int64(1 + r.IntN(5)))
				s.Stats.Probe("perp_all_but_dust_close_submitted")
			}
			s.SendTx(u, "perp/close", &perpetualtypes.MsgClose{Creator: u.Addr.String(), Id: m.Id, Amount: amt})
		case act < 8:
			f := 0.6 + r.Float64()*0.39
			if m.Position == perpetualtypes.Position_SHORT {
				f = 1.01 + r.Float64()*0.5
			}
			slp := price.Mul(decFromFloat(f))
			if r.IntN(4) == 0 {
				slp = sdkmath.LegacyZeroDec() // 0 = no stop loss (the CLI default)
				s.Stats.Probe("perp_stop_loss_cleared_submitted")
			}
			s.SendTx(u, "perp/update_sl", &perpetualtypes.MsgUpdateStopLoss{Creator: u.Addr.String(), Id: m.Id, Price: slp})
		default:
			f := 1.03 + r.Float64()*3
			if m.Position == perpetualtypes.Position_SHORT {
				f = 0.3 + r.Float64()*0.67
			}
			s.SendTx(u, "perp/update_tp", &perpetualtypes.MsgUpdateTakeProfitPrice{Creator: u.Addr.String(), Id: m.Id, Price: price.Mul(decFromFloat(f))})
		}
	}
}

func pow10f(n uint64) float64 {
	x := 1.0
	for i := uint64(0); i < n; i++ {
		x *= 10
	}
	return x
}

// ---------------------------------------------------------------------------
// LiquidatorAgent: permissionless bots naming arbitrary (owner,id) pairs —
// healthy, unhealthy, boundary, non-existent — in all lists.

type LiquidatorAgent struct {
	baseAgent
	stalled int
}

func (a *LiquidatorAgent) Step(s *Sim) {
	r := a.rng
	if a.stalled > 0 {
		a.stalled--
		s.Stats.Inc("fault/bot_stalled_block", 1)
		return
	}
	if s.Cfg.Faults.BotStall > 0 && r.Float64() < s.Cfg.Faults.BotStall {
		a.stalled = 3 + r.IntN(25)
		return
	}
	if r.Float64() >= s.Cfg.rate("liquidator") {
		return
	}
	ctx := s.Ctx()
	bot := s.user(r)
	// a competent bot: one message naming every open position (healthy ones are merely
	// settled and skipped, all unhealthy ones of a pool are liquidated in one batch)
	if r.IntN(3) == 0 {
		if mt := s.N0.App.PerpetualKeeper.GetAllMTPs(ctx); len(mt) > 0 && r.IntN(2) == 0 {
			msg := &perpetualtypes.MsgClosePositions{Creator: bot.Addr.String()}
			for _, m := range mt {
				req := perpetualtypes.PositionRequest{Address: m.Address, Id: m.Id}
				msg.Liquidate = append(msg.Liquidate, req)
				if r.IntN(2) == 0 {
					msg.StopLoss = append(msg.StopLoss, req)
				}
				if r.IntN(2) == 0 {
					msg.TakeProfit = append(msg.TakeProfit, req)
				}
				if len(msg.Liquidate) >= 12 {
					break
				}
			}
			s.Stats.Probe("bot_sweeps_all_positions")
			s.SendTx(bot, "bot/perp_sweep_all", msg)
		} else if lp := s.N0.App.LeveragelpKeeper.GetAllPositions(ctx); len(lp) > 0 {
			msg := &leveragelptypes.MsgClosePositions{Creator: bot.Addr.String()}
			for _, p := range lp {
				req := &leveragelptypes.PositionRequest{Address: p.Address, Id: p.Id}
				if r.IntN(2) == 0 {
					msg.Liquidate = append(msg.Liquidate, req)
				} else {
					msg.StopLoss = append(msg.StopLoss, req)
				}
				if len(msg.Liquidate)+len(msg.StopLoss) >= 12 {
					break
				}
			}
			s.Stats.Probe("bot_sweeps_all_positions")
			s.SendTx(bot, "bot/levlp_sweep_all", msg)
		}
		return
	}
	// leveragelp
	lpos := s.N0.App.LeveragelpKeeper.GetAllPositions(ctx)
	if len(lpos) > 0 && r.IntN(2) == 0 {
		msg := &leveragelptypes.MsgClosePositions{Creator: bot.Addr.String()}
		for i := 0; i < 1+r.IntN(4); i++ {
			p := pick(r, lpos)
			req := &leveragelptypes.PositionRequest{Address: p.Address, Id: p.Id}
			if r.Float64() < 0.1 {
				req.Id += 1000 // non-existent
			}
			if r.IntN(2) == 0 {
				msg.Liquidate = append(msg.Liquidate, req)
			} else {
				msg.StopLoss = append(msg.StopLoss, req)
			}
		}
		s.SendTx(bot, "bot/levlp_close_positions", msg)
	}
	mtps := s.N0.App.PerpetualKeeper.GetAllMTPs(ctx)
	if len(mtps) > 0 && r.IntN(2) == 0 {
		msg := &perpetualtypes.MsgClosePositions{Creator: bot.Addr.String()}
		for i := 0; i < 1+r.IntN(4); i++ {
			m := pick(r, mtps)
			req := perpetualtypes.PositionRequest{Address: m.Address, Id: m.Id}
			if r.Float64() < 0.1 {
				req.Id += 1000
			}
			switch r.IntN(3) {
			case 0:
				msg.Liquidate = append(msg.Liquidate, req)
			case 1:
				msg.StopLoss = append(msg.StopLoss, req)
			default:
				msg.TakeProfit = append(msg.TakeProfit, req)
			}
		}
		s.SendTx(bot, "bot/perp_close_positions", msg)
	}
}
