package main

import (
	sdkmath "cosmossdk.io/math"

	oracletypes "github.com/elys-network/elys/x/oracle/types"
)

// OracleChaosAgent: feeds with asset and source names that are prefixes or
// concatenations of one another, feeds by non-feeders, feeder self-(de)activation
// and removal, governance add/remove of feeders and expiry-parameter changes.
type OracleChaosAgent struct {
	baseAgent
}

var chaosAssets = []string{"ATOM", "ATOMX", "ATO", "ATOMelys", "ATOMelysium", "ELYS", "ELYSband", "ELY", "WBTC", "WBT", "CHAOS", "USDCX"}
var chaosSources = []string{"elys", "band", "elysium", "bandx", "x", "binance", "Melys", "e", "lys"}

func (a *OracleChaosAgent) Step(s *Sim) {
	r := a.rng
	if r.Float64() >= s.Cfg.rate("oraclechaos") {
		return
	}
	w := s.W
	chaosFeeders := w.Feeders
	if len(w.Feeders) > 2 {
		chaosFeeders = w.Feeders[2:]
	}
	price := func() sdkmath.LegacyDec { return decFromFloat(0.001 + r.Float64()*1000) }
	switch r.IntN(12) {
	case 0, 1, 2, 3:
		// a registered feeder (possibly deactivated/removed by now) feeds odd names
		f := pick(r, chaosFeeders)
		var fps []oracletypes.FeedPrice
		for i := 0; i < 1+r.IntN(3); i++ {
			fps = append(fps, oracletypes.FeedPrice{Asset: pick(r, chaosAssets), Price: price(), Source: pick(r, chaosSources)})
		}
		s.SendTx(f, "oraclechaos/feed", &oracletypes.MsgFeedMultiplePrices{Creator: f.Addr.String(), FeedPrices: fps})
	case 4:
		f := pick(r, chaosFeeders)
		s.SendTx(f, "oraclechaos/feed_one", &oracletypes.MsgFeedPrice{Provider: f.Addr.String(), FeedPrice: oracletypes.FeedPrice{Asset: pick(r, chaosAssets), Price: price(), Source: pick(r, chaosSources)}})
	case 5, 6:
		// an ordinary account tries to feed
		u := s.user(r)
		s.SendTx(u, "oraclechaos/feed_by_user", &oracletypes.MsgFeedPrice{Provider: u.Addr.String(), FeedPrice: oracletypes.FeedPrice{Asset: pick(r, []string{"ATOM", "USDC", "ELYS"}), Price: price(), Source: "elys"}})
	case 7:
		f := pick(r, chaosFeeders)
		s.SendTx(f, "oraclechaos/set_active", &oracletypes.MsgSetPriceFeeder{Feeder: f.Addr.String(), IsActive: r.IntN(2) == 0})
	case 8:
		f := pick(r, chaosFeeders)
		if len(w.Feeders) > 2 { // never delete the feeders the rest of the simulation depends on
			s.SendTx(f, "oraclechaos/delete_self", &oracletypes.MsgDeletePriceFeeder{Feeder: f.Addr.String()})
		}
	case 9:
		// an ordinary account tries to register itself
		u := s.user(r)
		s.SendTx(u, "oraclechaos/user_set_feeder", &oracletypes.MsgSetPriceFeeder{Feeder: u.Addr.String(), IsActive: true})
	case 10:
		f := pick(r, chaosFeeders)
		if r.IntN(2) == 0 {
			s.Gov.Propose(&oracletypes.MsgAddPriceFeeders{Authority: w.GovAddr.String(), Feeders: []string{f.Addr.String()}})
		} else if len(w.Feeders) > 2 {
			s.Gov.Propose(&oracletypes.MsgRemovePriceFeeders{Authority: w.GovAddr.String(), Feeders: []string{f.Addr.String()}})
		}
	default:
		u := s.user(r)
		as := pick(r, chaosAssets)
		s.SendTx(u, "oraclechaos/create_asset_info", &oracletypes.MsgCreateAssetInfo{Creator: u.Addr.String(), Denom: "u" + as, Display: as, BandTicker: as, ElysTicker: as, Decimal: uint64(r.IntN(10))})
	}
}
