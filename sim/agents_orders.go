package main

import (
	sdkmath "cosmossdk.io/math"
	sdk "github.com/cosmos/cosmos-sdk/types"

	tradeshieldtypes "github.com/elys-network/elys/x/tradeshield/types"
)

// OrdersAgent: tradeshield users creating / updating / cancelling spot and
// perpetual limit orders (and trying the same on other users' orders).
type OrdersAgent struct {
	baseAgent
}

func (a *OrdersAgent) Step(s *Sim) {
	r := a.rng
	rate := s.Cfg.rate("orders")
	ctx := s.Ctx()
	k := s.N0.App.TradeshieldKeeper
	n := 0
	for r.Float64() < rate && n < 3 {
		n++
		u := s.user(r)
		spot := k.GetAllPendingSpotOrder(ctx)
		perp := k.GetAllPendingPerpetualOrder(ctx)
		switch r.IntN(10) {
		case 0, 1, 2:
			// spot order around the market
			base := pick(r, []string{DenomATOM, DenomELYS, DenomWBTC, DenomTIA})
			price, err := k.GetAssetPriceFromDenomInToDenomOut(ctx, base, DenomUSDC)
			if err != nil || price.IsZero() {
				price = sdkmath.LegacyOneDec()
			}
			typ := pick(r, []tradeshieldtypes.SpotOrderType{tradeshieldtypes.SpotOrderType_STOPLOSS, tradeshieldtypes.SpotOrderType_LIMITSELL, tradeshieldtypes.SpotOrderType_LIMITBUY, tradeshieldtypes.SpotOrderType_MARKETBUY})
			rateP := price.Mul(decFromFloat(0.9 + 0.2*r.Float64()))
			msg := &tradeshieldtypes.MsgCreateSpotOrder{OrderType: typ, OwnerAddress: u.Addr.String(),
				OrderPrice: tradeshieldtypes.OrderPrice{BaseDenom: base, QuoteDenom: DenomUSDC, Rate: rateP}}
			switch typ {
			case tradeshieldtypes.SpotOrderType_LIMITBUY, tradeshieldtypes.SpotOrderType_MARKETBUY:
				// pay USDC, receive base
				msg.OrderAmount = sdk.NewCoin(DenomUSDC, s.uniq(logUniform(r, 1e3, 5e9)))
				msg.OrderTargetDenom = base
				msg.OrderPrice = tradeshieldtypes.OrderPrice{BaseDenom: DenomUSDC, QuoteDenom: base, Rate: sdkmath.LegacyOneDec().Quo(rateP)}
			default:
				as := assetByDenom(base)
				f, _ := price.Float64()
				if f <= 0 {
					f = 1
				}
				usd := logUniform(r, 1e3, 5e9)
				u64, _ := sdkmath.LegacyNewDecFromInt(usd).Float64()
				msg.OrderAmount = sdk.NewCoin(base, s.uniq(sdkmath.NewInt(int64(u64/f)+1)))
				_ = as
				msg.OrderTargetDenom = DenomUSDC
			}
			s.SendTx(u, "orders/create_spot", msg)
		case 3, 4:
			pools := s.N0.App.PerpetualKeeper.GetAllPools(ctx)
			if len(pools) == 0 {
				continue
			}
			pp := pick(r, pools)
			ammPool, found := s.N0.App.AmmKeeper.GetPool(ctx, pp.AmmPoolId)
			if !found {
				continue
			}
			trading := otherDenom(ammPool, DenomUSDC)
			price, err := s.N0.App.PerpetualKeeper.GetAssetPrice(ctx, trading)
			if err != nil || price.IsZero() {
				continue
			}
			pos := tradeshieldtypes.PerpetualPosition_LONG
			trig := price.Mul(decFromFloat(0.93 + 0.1*r.Float64())) // long: executes when market <= trigger
			tp := price.Mul(decFromFloat(1.1 + 2*r.Float64()))
			if r.IntN(3) == 0 {
				pos = tradeshieldtypes.PerpetualPosition_SHORT
				trig = price.Mul(decFromFloat(0.97 + 0.1*r.Float64()))
				tp = price.Mul(decFromFloat(0.3 + 0.6*r.Float64()))
			}
			s.SendTx(u, "orders/create_perp_open", &tradeshieldtypes.MsgCreatePerpetualOpenOrder{OwnerAddress: u.Addr.String(),
				TriggerPrice: tradeshieldtypes.TriggerPrice{TradingAssetDenom: trading, Rate: trig}, Collateral: sdk.NewCoin(DenomUSDC, s.uniq(logUniform(r, 1e5, 5e9))),
				TradingAsset: trading, Position: pos, Leverage: decFromFloat(1.2 + 6*r.Float64()), TakeProfitPrice: tp, StopLossPrice: sdkmath.LegacyZeroDec(), PoolId: pp.AmmPoolId})
		case 5:
			if len(spot) > 0 {
				o := pick(r, spot)
				owner := s.W.ByAddr[o.OwnerAddress]
				if owner == nil || r.IntN(4) == 0 {
					owner = u // somebody else tries
				}
				s.SendTx(owner, "orders/update_spot", &tradeshieldtypes.MsgUpdateSpotOrder{OwnerAddress: owner.Addr.String(), OrderId: o.OrderId,
					OrderPrice: tradeshieldtypes.OrderPrice{BaseDenom: o.OrderPrice.BaseDenom, QuoteDenom: o.OrderPrice.QuoteDenom, Rate: o.OrderPrice.Rate.Mul(decFromFloat(0.9 + 0.2*r.Float64()))}})
			}
		case 6:
			if len(spot) > 0 {
				o := pick(r, spot)
				owner := s.W.ByAddr[o.OwnerAddress]
				if owner == nil || r.IntN(4) == 0 {
					owner = u
				}
				if r.IntN(2) == 0 {
					s.SendTx(owner, "orders/cancel_spot", &tradeshieldtypes.MsgCancelSpotOrder{OwnerAddress: owner.Addr.String(), OrderId: o.OrderId})
				} else {
					ids := []uint64{o.OrderId}
					for _, x := range spot { // more of the same owner's orders, sometimes one of them twice
						if x.OwnerAddress == owner.Addr.String() && x.OrderId != o.OrderId && r.IntN(2) == 0 {
							ids = append(ids, x.OrderId)
						}
					}
					if r.IntN(4) == 0 {
						ids = append(ids, ids[r.IntN(len(ids))])
						s.Stats.Probe("batch_cancel_with_repeated_id_submitted")
					}
					s.SendTx(owner, "orders/cancel_spots", &tradeshieldtypes.MsgCancelSpotOrders{Creator: owner.Addr.String(), SpotOrderIds: ids})
				}
			}
		case 7:
			if len(perp) > 0 {
				o := pick(r, perp)
				owner := s.W.ByAddr[o.OwnerAddress]
				if owner == nil || r.IntN(4) == 0 {
					owner = u
				}
				s.SendTx(owner, "orders/update_perp", &tradeshieldtypes.MsgUpdatePerpetualOrder{OwnerAddress: owner.Addr.String(), OrderId: o.OrderId,
					TriggerPrice: tradeshieldtypes.TriggerPrice{TradingAssetDenom: o.TriggerPrice.TradingAssetDenom, Rate: o.TriggerPrice.Rate.Mul(decFromFloat(0.9 + 0.2*r.Float64()))}})
			}
		default:
			if len(perp) > 0 {
				o := pick(r, perp)
				owner := s.W.ByAddr[o.OwnerAddress]
				if owner == nil || r.IntN(4) == 0 {
					owner = u
				}
				if r.IntN(2) == 0 {
					s.SendTx(owner, "orders/cancel_perp", &tradeshieldtypes.MsgCancelPerpetualOrder{OwnerAddress: owner.Addr.String(), OrderId: o.OrderId})
				} else {
					ids := []uint64{o.OrderId}
					for _, x := range perp {
						if x.OwnerAddress == owner.Addr.String() && x.OrderId != o.OrderId && r.IntN(2) == 0 {
							ids = append(ids, x.OrderId)
						}
					}
					if r.IntN(4) == 0 {
						ids = append(ids, ids[r.IntN(len(ids))])
						s.Stats.Probe("batch_cancel_with_repeated_id_submitted")
					}
					s.SendTx(owner, "orders/cancel_perps", &tradeshieldtypes.MsgCancelPerpetualOrders{OwnerAddress: owner.Addr.String(), OrderIds: ids})
				}
			}
		}
	}
}

// ExecutorAgent: permissionless order-execution bots naming arbitrary ids.
type ExecutorAgent struct {
	baseAgent
	stalled int
}

func (a *ExecutorAgent) Step(s *Sim) {
	r := a.rng
	if a.stalled > 0 {
		a.stalled--
		return
	}
	if s.Cfg.Faults.BotStall > 0 && r.Float64() < s.Cfg.Faults.BotStall {
		a.stalled = 3 + r.IntN(20)
		return
	}
	if r.Float64() >= s.Cfg.rate("executor") {
		return
	}
	ctx := s.Ctx()
	k := s.N0.App.TradeshieldKeeper
	spot := k.GetAllPendingSpotOrder(ctx)
	perp := k.GetAllPendingPerpetualOrder(ctx)
	if len(spot)+len(perp) == 0 {
		return
	}
	msg := &tradeshieldtypes.MsgExecuteOrders{Creator: "", SpotOrderIds: []uint64{}, PerpetualOrderIds: []uint64{}}
	bot := s.user(r)
	msg.Creator = bot.Addr.String()
	for i := 0; i < 1+r.IntN(4) && len(spot) > 0; i++ {
		msg.SpotOrderIds = append(msg.SpotOrderIds, pick(r, spot).OrderId)
	}
	for i := 0; i < 1+r.IntN(3) && len(perp) > 0; i++ {
		msg.PerpetualOrderIds = append(msg.PerpetualOrderIds, pick(r, perp).OrderId)
	}
	if r.IntN(20) == 0 {
		msg.SpotOrderIds = append(msg.SpotOrderIds, 9999) // non-existent
	}
	s.SendTx(bot, "bot/execute_orders", msg)
}
