package main

import (
	"bufio"
	"encoding/json"
	"flag"
	"fmt"
	"os"
	"os/exec"
	"path/filepath"
	"regexp"
	"runtime"
	"sort"
	"strings"
	"sync"
	"time"
)

// KnownFinding is one entry of /verif/known_findings.json (read-only at run time).
type KnownFinding struct {
	ID       string `json:"id"`
	Property string `json:"property"`
	Status   string `json:"status"` // "known" | "fixed"
	Sub      string `json:"sub"`    // sub-invariant (violation class = property/sub)
	Culprit  string `json:"culprit_regex,omitempty"`
	Detail   string `json:"detail_regex,omitempty"`
	What     string `json:"what"`
	Commit   string `json:"commit,omitempty"`
}

func loadKnown(path string) []KnownFinding {
	bz, err := os.ReadFile(path)
	if err != nil {
		return nil
	}
	var out struct {
		Findings []KnownFinding `json:"findings"`
	}
	if err := json.Unmarshal(bz, &out); err != nil {
		fmt.Fprintln(os.Stderr, "known_findings.json:", err)
		os.Exit(2)
	}
	return out.Findings
}

func matchKnown(kf []KnownFinding, v Violation) *KnownFinding {
	for i := range kf {
		k := &kf[i]
		if k.Status != "known" || k.Property != v.Prop {
			continue
		}
		if ok, _ := regexp.MatchString("^(?:"+k.Sub+")$", v.Sub); !ok {
			continue
		}
		if k.Culprit != "" {
			if ok, _ := regexp.MatchString(k.Culprit, v.Culprit); !ok {
				continue
			}
		}
		if k.Detail != "" {
			if ok, _ := regexp.MatchString(k.Detail, v.Detail); !ok {
				continue
			}
		}
		return k
	}
	return nil
}

var verifRoot = func() string {
	if v := os.Getenv("VERIF_ROOT"); v != "" {
		return v
	}
	return "/verif"
}()

func cmdBatch(args []string) {
	fs := flag.NewFlagSet("batch", flag.ExitOnError)
	prop := fs.String("prop", "", "property id to decide (violations of other properties are only logged)")
	profile := fs.String("profile", "", "workload profile (default = prop)")
	tier := fs.String("tier", "quick", "")
	seed := fs.Uint64("seed", 1, "")
	runs := fs.Int("runs", 32, "")
	workers := fs.Int("workers", runtime.NumCPU(), "")
	budget := fs.Int("budget", 0, "wall-clock seconds after which no new run starts (0 = none)")
	_ = fs.Parse(args)
	if *profile == "" {
		*profile = *prop
	}
	t0 := time.Now()
	self, _ := os.Executable()
	work, err := os.MkdirTemp("", "elyssim-batch-")
	if err != nil {
		fmt.Fprintln(os.Stderr, err)
		os.Exit(2)
	}
	defer os.RemoveAll(work)
	if *workers > *runs {
		*workers = *runs
	}
	deadline := int64(0)
	if *budget > 0 {
		deadline = time.Now().Unix() + int64(*budget)
	}
	var wg sync.WaitGroup
	errs := make([]error, *workers)
	outs := make([]string, *workers)
	for w := 0; w < *workers; w++ {
		outs[w] = filepath.Join(work, fmt.Sprintf("w%d.jsonl", w))
		wg.Add(1)
		go func(w int) {
			defer wg.Done()
			cmd := exec.Command(self, "worker", "-profile", *profile, "-tier", *tier, "-seed", fmt.Sprint(*seed),
				"-from", fmt.Sprint(w), "-step", fmt.Sprint(*workers), "-runs", fmt.Sprint(*runs), "-out", outs[w],
				"-tracedir", work, "-deadline", fmt.Sprint(deadline))
			cmd.Env = append(os.Environ(), "GOMAXPROCS=2", "ELYSSIM_HOME="+filepath.Join(work, fmt.Sprintf("home%d", w)))
			cmd.Stderr = os.Stderr
			errs[w] = cmd.Run()
		}(w)
	}
	wg.Wait()
	var results []*RunResult
	for w := 0; w < *workers; w++ {
		f, err := os.Open(outs[w])
		if err != nil {
			fmt.Fprintf(os.Stderr, "worker %d produced no output: %v %v\n", w, err, errs[w])
			os.Exit(2)
		}
		sc := bufio.NewScanner(f)
		sc.Buffer(make([]byte, 1<<20), 1<<28)
		for sc.Scan() {
			var r RunResult
			if err := json.Unmarshal(sc.Bytes(), &r); err != nil {
				fmt.Fprintf(os.Stderr, "worker %d: bad line: %v\n", w, err)
				os.Exit(2)
			}
			results = append(results, &r)
		}
		f.Close()
		if errs[w] != nil {
			fmt.Fprintf(os.Stderr, "worker %d died: %v (a run crashed the process; treated as harness failure)\n", w, errs[w])
			os.Exit(2)
		}
	}
	if len(results) == 0 {
		fmt.Fprintln(os.Stderr, "no runs completed")
		os.Exit(2)
	}
	sort.Slice(results, func(i, j int) bool { return results[i].Seed < results[j].Seed })
	kf := loadKnown(filepath.Join(verifRoot, "known_findings.json"))

	// ---- harness errors are never violations
	for _, r := range results {
		if r.HarnessErr != "" {
			fmt.Fprintf(os.Stderr, "HARNESS ERROR seed=%d: %s\n", r.Seed, r.HarnessErr)
			fmt.Println("check aborted: harness/tooling error (exit 2, not a violation)")
			os.Exit(2)
		}
	}

	// ---- violations of the decided property
	type found struct {
		v   Violation
		res *RunResult
	}
	byClass := map[string]found{}
	knownSeen := map[string]*KnownFinding{}
	others := map[string]int{}
	for _, r := range results {
		for _, v := range r.Violations {
			if v.Prop != *prop {
				if matchKnown(kf, v) == nil {
					others[v.Class()]++
				}
				continue
			}
			if k := matchKnown(kf, v); k != nil {
				knownSeen[k.ID] = k
				continue
			}
			key := v.Class() + "|" + v.Culprit
			if _, ok := byClass[key]; !ok {
				byClass[key] = found{v, r}
			}
		}
	}
	exit := 0
	nviol := 0
	keys := make([]string, 0, len(byClass))
	for k := range byClass {
		keys = append(keys, k)
	}
	sort.Strings(keys)
	replayDir := filepath.Join(verifRoot, "replays", *prop)
	const maxReported = 8
	for i, k := range keys {
		fd := byClass[k]
		nviol++
		exit = 1
		if i >= maxReported {
			// the culprit label of a block-level check lists the block's message types, so one
			// defect can show up under hundreds of labels: report a handful, count the rest
			if i == maxReported {
				fmt.Printf("note: %d further violation classes of %s (same checks, other culprit labels) are counted but not written as replay files\n", len(keys)-maxReported, *prop)
			}
			continue
		}
		_ = os.MkdirAll(replayDir, 0o755)
		path := filepath.Join(replayDir, fmt.Sprintf("%d-%d.json", fd.res.Seed, i))
		if i < 3 && fd.res.TracePath != "" {
			if err := minimizeAndWrite(fd.res.TracePath, fd.v, path, time.Duration(envInt("VERIF_MINIMIZE_S", 75))*time.Second); err != nil {
				fmt.Fprintf(os.Stderr, "minimise failed (%v); writing unminimised replay\n", err)
				_ = writeReplayUnminimised(fd.res.TracePath, fd.v, path)
			}
		} else if fd.res.TracePath != "" {
			_ = writeReplayUnminimised(fd.res.TracePath, fd.v, path)
		}
		fmt.Printf("VIOLATION property=%s replay=%s\n", *prop, path)
		fmt.Printf("  class=%s culprit=%s seed=%d height=%d\n  %s\n", fd.v.Class(), fd.v.Culprit, fd.res.Seed, fd.v.Height, strings.ReplaceAll(truncate(fd.v.Detail, 1500), "\n", "\n  "))
	}
	// directed regression histories: the minimised replay of every defect of this property that
	// was found and repaired (regressions/<property>/*.json) is re-executed against the current
	// tree; the recorded violation must not come back.
	regs, _ := filepath.Glob(filepath.Join(verifRoot, "regressions", *prop, "*.json"))
	sort.Strings(regs)
	regHit := 0
	for _, f := range regs {
		cmd := exec.Command(self, "replay", f)
		out, err := cmd.CombinedOutput()
		code := 0
		if err != nil {
			if ee, ok := err.(*exec.ExitError); ok {
				code = ee.ExitCode()
			} else {
				code = 2
			}
		}
		switch code {
		case 0:
		case 1:
			regHit++
			nviol++
			exit = 1
			for _, ln := range strings.Split(string(out), "\n") {
				if strings.HasPrefix(ln, "VIOLATION") || strings.HasPrefix(ln, "  class=") || strings.HasPrefix(ln, "  ") && !strings.Contains(ln, "goroutine") {
					fmt.Println(truncate(ln, 600))
				}
			}
		default:
			fmt.Printf("regression replay %s could not be executed (exit %d, not a violation):\n%s\n", f, code, truncate(string(out), 2000))
			os.Exit(2)
		}
	}
	regressionInfo = map[string]any{"replays_executed": len(regs), "violations_reproduced": regHit}
	ids := make([]string, 0, len(knownSeen))
	for id := range knownSeen {
		ids = append(ids, id)
	}
	sort.Strings(ids)
	for _, id := range ids {
		fmt.Printf("KNOWN-FINDING: property=%s %s: %s\n", *prop, id, knownSeen[id].What)
	}
	if len(others) > 0 {
		var os_ []string
		for k, n := range others {
			os_ = append(os_, fmt.Sprintf("%s×%d", k, n))
		}
		sort.Strings(os_)
		fmt.Printf("note: violations of other properties seen in this batch (decided by their own checks): %s\n", strings.Join(os_, " "))
	}
	if n := sumCounter(results, "ledger_inconsistent_blocks"); n > 0 {
		fmt.Printf("warning: in %.0f block(s) the bank events did not describe the real balance changes (code under test emits inconsistent events); ledger-based checks skipped those blocks\n", n)
		if exit == 0 && ledgerDependent[*prop] {
			fmt.Println("check aborted: this property's oracle depends on the event ledger, which was inconsistent (exit 2, not a violation)")
			os.Exit(2)
		}
	}
	writeEvidence(*prop, *profile, *tier, *seed, results, nviol, len(knownSeen), time.Since(t0))
	fmt.Printf("%s %s: %d runs, %d blocks, %.0f tx ok / %.0f failed, %d violation class(es), %.1fs\n", *prop, *tier, len(results), sumBlocks(results), sumCounter(results, "tx_ok"), sumCounter(results, "tx_fail"), nviol, time.Since(t0).Seconds())
	os.Exit(exit)
}

func sumBlocks(rs []*RunResult) int64 {
	var n int64
	for _, r := range rs {
		n += r.Blocks
	}
	return n
}

func sumCounter(rs []*RunResult, k string) float64 {
	var n float64
	for _, r := range rs {
		n += r.Counters[k]
	}
	return n
}

// ledgerDependent: properties whose oracle needs the bank-event ledger.
var ledgerDependent = map[string]bool{"C02": true, "C03": true, "C04": true, "C12": true, "C15": true}

// regressionInfo: filled by cmdBatch for the evidence file.
var regressionInfo map[string]any
