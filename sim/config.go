package main

import (
	"math/rand/v2"
)

// FaultCfg: per-run fault rates (probabilities per opportunity).
type FaultCfg struct {
	Quiet float64 // probability per block that a quiet period starts (only feeders and governance act)
	TxDrop       float64 `json:"tx_drop"`
	TxDelay      float64 `json:"tx_delay"`
	TxDup        float64 `json:"tx_dup"`
	TxReorder    float64 `json:"tx_reorder"`
	StaleSeq     float64 `json:"stale_seq"`
	Restart      float64 `json:"restart"`       // per block, replica N1
	LongGap      bool    `json:"long_gap,omitempty"` // neglect: clock jumps of 200 / 400 days among the jumps, and no liquidation bots for the whole run
	GasStarve    float64 `json:"gas_starve"`    // per tx: draw a gas limit that may run out mid-handler
	OracleOutage float64 `json:"oracle_outage"` // per block: start an outage
	OutageLen    int     `json:"outage_len"`    // max blocks of an outage
	ClockJump    float64 `json:"clock_jump"`    // per block: abnormal dt
	BotStall     float64 `json:"bot_stall"`     // per block: liquidator/executor bots go away for a while
}

// SwarmConfig is everything a run's seed decides up-front.
type SwarmConfig struct {
	Profile            string             `json:"profile"`
	Genesis            GenesisConfig      `json:"genesis"`
	Horizon            int                `json:"horizon"`
	MaxBlockTxs        int                `json:"max_block_txs"`
	Replica            bool               `json:"replica"`
	Shadow             bool               `json:"shadow"`
	CoolDown  int  // last blocks of the run without faults, canary traffic only (C18 liveness evidence)
	LatePoolAt int64 // hold the last planned pool back until this height (0 = create at once)
	EdenCycle bool // governance cycles one pool's Eden rewards on/off/on (C13)
	ProdBoot           bool               `json:"prod_boot,omitempty"` // replicas start the production way (constructor loads the latest version); no exact gas cuts in such a run
	Reexec             bool               `json:"reexec"`         // re-execute the block log in a fresh OS process
	ReexecDumpAt       int64              `json:"reexec_dump_at"` // height at which the reference DB is dumped for the resume variant
	RestartEveryHeight bool               `json:"restart_every_height"`
	KeepBlocks         bool               `json:"-"`
	Verbose            bool               `json:"-"`
	Faults             FaultCfg           `json:"faults"`
	Rate               map[string]float64 `json:"rate"` // agent activity (probability of acting per block); 0/absent = agent not present
	NumPools           int                `json:"num_pools"`
	PoolFeeMax         float64            `json:"pool_fee_max"`
	PriceVol           float64            `json:"price_vol"`  // per-block sigma of the price walk
	PriceJump          float64            `json:"price_jump"` // probability of a jump per block
	FeeDenoms          []string           `json:"fee_denoms"`
}

func (c *SwarmConfig) rate(name string) float64 { return c.Rate[name] }

// drawDt draws the next block interval in milliseconds.
func (c *SwarmConfig) drawDt(r *rand.Rand, s *Sim) int64 {
	if c.Faults.ClockJump > 0 && r.Float64() < c.Faults.ClockJump {
		s.Stats.Inc("fault/clock_jump", 1)
		if c.Faults.LongGap && r.IntN(3) == 0 {
			s.Stats.Inc("fault/clock_jump_of_months", 1)
			return int64(200+200*r.IntN(2)) * 86_400_000
		}
		switch r.IntN(8) {
		case 0:
			return 1 // two blocks in the same unix second
		case 1:
			return 60_000
		case 2:
			return 301_000 // > five_minutes epoch
		case 3:
			return 3_600_000
		case 4:
			return 86_400_000 + 1000
		case 5:
			return 8 * 86_400_000
		case 6:
			return 40 * 86_400_000
		default:
			return int64(700_000 + r.IntN(600_000)) // 2-4 five-minute epochs in one block
		}
	}
	return int64(1000 + r.IntN(5000))
}
