package main

import (
	"encoding/json"
	"fmt"
	"os"
	"path/filepath"
	"sort"
	"strings"
	"time"
)

// keyProbes: a run counts as non-trivial for a property when at least one of
// these counters is > 0 in it (the behaviour the property is about was reached).
var keyProbes = map[string][]string{
	"C01": {"tx_ok/amm.MsgSwapExactAmountIn", "tx_ok/amm.MsgJoinPool", "tx_ok/amm.MsgExitPool", "tx_ok/perpetual.MsgOpen", "tx_ok/leveragelp.MsgOpen"},
	"C02": {"tx_ok/amm.MsgJoinPool", "tx_ok/amm.MsgExitPool", "tx_ok/leveragelp.MsgOpen"},
	"C03": {"probe/swap_checked"},
	"C04": {"probe/swap_request_settled", "probe/swap_request_void"},
	"C05": {"probe/join_checked", "probe/exit_checked"},
	"C06": {"tx_ok/leveragelp.MsgOpen", "tx_ok/stablestake.MsgBond"},
	"C07": {"probe/bond_checked", "probe/unbond_checked"},
	"C08": {"tx_ok/leveragelp.MsgOpen"},
	"C09": {"tx_ok/perpetual.MsgOpen"},
	"C10": {"probe/force_close_request_checked", "probe/open_health_checked"},
	"C11": {"tx_ok/perpetual.MsgOpen"},
	"C12": {"tx_ok/commitment.MsgUncommitTokens", "tx_ok/commitment.MsgCommitClaimedRewards", "tx_ok/stablestake.MsgBond", "tx_ok/amm.MsgJoinPool"},
	"C13": {"probe/rewards_credited"},
	"C14": {"tx_ok/commitment.MsgVest", "tx_ok/commitment.MsgClaimVesting"},
	"C15": {"tx_ok"},
	"C16": {"probe/oracle_lookup_compared"},
	"C17": {"probe/attack_tx_checked"},
	"C18": {"fault/oracle_feed_withheld", "fault/clock_jump", "tx_fail"},
	"C19": {"replica_blocks_compared"},
	"C20": {"probe/order_tx_checked"},
}

func writeEvidence(prop, profile, tier string, seed uint64, rs []*RunResult, nviol, nknown int, wall time.Duration) {
	counters := map[string]float64{}
	states := map[uint64]struct{}{}
	grams := map[uint64]struct{}{}
	distinct := map[string]bool{}
	nontrivial := 0
	var samples []any
	for _, r := range rs {
		for k, v := range r.Counters {
			counters[k] += v
		}
		for _, x := range r.States {
			states[x] = struct{}{}
		}
		for _, x := range r.Grams {
			grams[x] = struct{}{}
		}
		hit := false
		for _, p := range keyProbes[prop] {
			if r.Counters[p] > 0 {
				hit = true
			}
		}
		if hit && !distinct[r.TraceHash] {
			distinct[r.TraceHash] = true
			nontrivial++
		}
		if len(r.Sample) > 0 && len(samples) < 2 {
			samples = append(samples, map[string]any{"seed": r.Seed, "blocks": r.Blocks, "trace_excerpt": r.Sample})
		}
	}
	if len(samples) == 0 {
		samples = append(samples, map[string]any{"seed": rs[0].Seed, "blocks": rs[0].Blocks})
	}
	faults := map[string]float64{}
	probes := map[string]float64{}
	txok := map[string]float64{}
	txfail := map[string]float64{}
	checks := map[string]float64{}
	shadow := map[string]float64{}
	c17 := map[string]float64{}
	govedge := map[string]float64{}
	canary := map[string]float64{}
	for k, v := range counters {
		switch {
		case strings.HasPrefix(k, "fault/"):
			faults[strings.TrimPrefix(k, "fault/")] = v
		case strings.HasPrefix(k, "probe/"):
			probes[strings.TrimPrefix(k, "probe/")] = v
		case strings.HasPrefix(k, "tx_ok/"):
			txok[strings.TrimPrefix(k, "tx_ok/")] = v
		case strings.HasPrefix(k, "tx_fail/"):
			txfail[strings.TrimPrefix(k, "tx_fail/")] = v
		case strings.HasPrefix(k, "checks/"):
			checks[strings.TrimPrefix(k, "checks/")] = v
		case strings.HasPrefix(k, "shadow_") || strings.HasPrefix(k, "reexec_"):
			shadow[k] = v
		case strings.HasPrefix(k, "c17/"):
			c17[strings.TrimPrefix(k, "c17/")] = v
		case strings.HasPrefix(k, "canary_"):
			canary[k] = v
		case strings.HasPrefix(k, "govedge/"):
			govedge[strings.TrimPrefix(k, "govedge/")] = v
		}
	}
	level := "exploration"
	if prop == "C19" && tier == "thorough" {
		level = "fault_enumeration"
	}
	hours := wall.Hours()
	cov := map[string]any{
		"evaluations":         len(rs),
		"distinct_nontrivial": nontrivial,
		"rule": fmt.Sprintf("one evaluation = one simulated run (seeded swarm configuration '%s', generated multi-party traffic and faults over the real ElysApp, all monitors on). "+
			"distinct = distinct hash of the executed explicit trace (blocks, transactions, faults); non-trivial = at least one of the property's key probes fired in the run: %s",
			profile, strings.Join(keyProbes[prop], ", ")),
		"samples":                         samples,
		"blocks":                          counters["blocks"],
		"transactions_ok":                 counters["tx_ok"],
		"transactions_failed":             counters["tx_fail"],
		"tx_ok_by_type":                   txok,
		"tx_failed_by_type":               txfail,
		"simulated_seconds":               counters["sim_seconds"],
		"runs_per_hour":                   float64(len(rs)) / hours,
		"seeds_per_hour":                  float64(len(rs)) / hours,
		"faults_fired":                    faults,
		"probes":                          probes,
		"invariant_evaluations":           checks,
		"distinct_state_signatures":       len(states),
		"distinct_interleaving_3grams":    len(grams),
		"coverage_measure":                "state signature = bucketed tuple (#pools by kind, #positions by module and health bucket, vault utilisation, oracle status per asset, pending orders, vesting entries, reward denoms); interleaving = distinct 3-grams of (message type|blocker, ok|fail) on each signer's and each pool's timeline",
		"replica_blocks_compared":         counters["replica_blocks_compared"],
		"differential_replicas":           shadow,
		"c17_attack_refusals_by_message_type": c17,
		"c17_authority_message_types_enumerated_per_run": counters["c17_authority_message_types"] / float64(len(rs)),
		"governance_edge_parameter_proposals": govedge,
		"liveness_after_faults_stop":          canary,
		"regression_replays":              regressionInfo,
		"known_findings_seen":             nknown,
		"real_components":                 []string{"all 17 elys modules (keepers, hooks, begin/end blockers, msg servers)", "elys ante handler chain with real signature verification", "cosmos-sdk baseapp, auth, bank, staking, gov(ccv democracy), authz, distribution, ccv consumer", "IAVL/rootmulti commit store"},
		"stubbed_components":              []string{"CometBFT consensus, mempool, p2p (SimComet/SimNet)", "disk (SimDB: in-memory dbm.DB with op counting, read-fault injection, crash/restart)", "IBC counterparties, Band oracle, ICS provider (absent)", "wall clock never read by the harness; block time from SimClock; C19 additionally re-executes every run in a child whose wall clock is simulated (testing/synctest bubble: year 2000 onwards, jumping between blocks)"},
	}
	ev := map[string]any{
		"property_id": prop,
		"tier":        tier,
		"seed":        seed,
		"level":       level,
		"coverage":    cov,
		"assumptions": []string{
			"sampling, not enumeration: a clean batch is evidence, not proof",
			"CometBFT, IBC counterparties and the Band oracle are not simulated; prices enter through registered Elys feeders only",
			"storage-engine atomicity inside Commit (torn IAVL batches) is cosmos-sdk/iavl's contract and is not gated on",
			"software-upgrade migrations never run (fresh genesis at current module versions)",
		},
		"wall_s":     wall.Seconds(),
		"violations": nviol,
	}
	_ = os.MkdirAll(filepath.Join(verifRoot, "evidence"), 0o755)
	bz, _ := json.MarshalIndent(ev, "", " ")
	if err := os.WriteFile(filepath.Join(verifRoot, "evidence", prop+".json"), bz, 0o644); err != nil {
		fmt.Fprintln(os.Stderr, "evidence:", err)
		os.Exit(2)
	}
	_ = sort.Strings
}
