package main

import (
	"fmt"

	sdk "github.com/cosmos/cosmos-sdk/types"
	leveragelptypes "github.com/elys-network/elys/x/leveragelp/types"
)

func extraAgents(s *Sim) []Agent {
	var out []Agent
	add := func(name string, a Agent) {
		if s.Cfg.rate(name) > 0 {
			out = append(out, a)
		}
	}
	add("lender", &LenderAgent{baseAgent: newBase(s, "lender")})
	add("levlp", &LevLPAgent{newBase(s, "levlp")})
	add("perp", &PerpAgent{newBase(s, "perp")})
	add("liquidator", &LiquidatorAgent{baseAgent: newBase(s, "liquidator")})
	add("commit", &CommitAgent{baseAgent: newBase(s, "commit")})
	add("oraclechaos", &OracleChaosAgent{newBase(s, "oraclechaos")})
	add("govchaos", &GovChaosAgent{baseAgent: newBase(s, "govchaos")})
	add("govedge", &GovEdgeAgent{baseAgent: newBase(s, "govedge")})
	add("incentive", &IncentiveAgent{newBase(s, "incentive")})
	add("orders", &OrdersAgent{newBase(s, "orders")})
	add("executor", &ExecutorAgent{baseAgent: newBase(s, "executor")})
	add("attacker", &AttackerAgent{baseAgent: newBase(s, "attacker")})
	add("squatter", &SquatterAgent{baseAgent: newBase(s, "squatter")})
	add("canary", &CanaryAgent{baseAgent: newBase(s, "canary"), sent: map[string]int64{}})
	return out
}

func extraMonitors(s *Sim) []Monitor {
	c10 := newMonC10(s)
	return []Monitor{
		newMonC06(s),
		newMonC08(s),
		newMonC09(s),
		newMonC11(s),
		newMonC12(s),
		newMonC14(s),
		&MonC15{},
		newMonC16(s),
		newMonSwaps(s),
		newMonC05(s),
		newMonC07(s),
		newMonC13(s),
		c10,
		newMonC12Locks(s, c10),
		newMonC20(s),
		&MonC17{},
	}
}

func extraSignature(s *Sim) string {
	ctx := s.Ctx()
	app := s.N0.App
	np := len(app.LeveragelpKeeper.GetAllPositions(ctx))
	nm := len(app.PerpetualKeeper.GetAllMTPs(ctx))
	nd := len(app.StablestakeKeeper.GetAllDebts(ctx))
	return fmt.Sprintf("|levpos:%s|mtps:%s|debts:%s", bucket(np), bucket(nm), bucket(nd))
}

func msgURL(m sdk.Msg) string { return sdk.MsgTypeURL(m) }

func leveragelpPositionAddress(id uint64) sdk.AccAddress { return leveragelptypes.GetPositionAddress(id) }
