package main

import sdk "github.com/cosmos/cosmos-sdk/types"

func extraAgents(s *Sim) []Agent     { return nil }
func extraMonitors(s *Sim) []Monitor { return nil }
func extraSignature(s *Sim) string   { return "" }
func msgURL(m sdk.Msg) string        { return sdk.MsgTypeURL(m) }
