//go:build go1.25

package main

import (
	"fmt"
	"os"
	"testing"
	"testing/synctest"
	"time"
)

// Fake-wall-clock replica (C19: "regardless of ... wall-clock time"). Built only by the newer
// toolchain (go1.26.8, `go test -c`), run as a child process by finishReexec. The whole node - app
// construction, database, InitChain, every FinalizeBlock/Commit - lives inside a testing/synctest
// bubble, where time.Now() is a simulated clock that starts at 2000-01-01 and moves only when
// this goroutine sleeps. The child re-executes the reference node's block log; between blocks it
// sleeps a different, job-determined span (minutes to decades), so the wall clock the code under test
// could read differs from the reference node's by decades, moves backwards relative to block time,
// and crosses year/epoch boundaries. Block time and height (the only legal clock) are the recorded
// ones. Per-height app hashes must equal the reference's.
func TestFakeClockReexec(t *testing.T) {
	job := os.Getenv("ELYSSIM_FAKECLOCK_JOB")
	if job == "" {
		t.Skip("child mode only")
	}
	initSDKConfig()
	synctest.Test(t, func(t *testing.T) {
		if d, err := time.ParseDuration(os.Getenv("ELYSSIM_FAKECLOCK_START_OFFSET")); err == nil && d > 0 {
			time.Sleep(d) // start the simulated wall clock later than 2000-01-01
		}
		t0 := time.Now()
		fakeClockStep = func(i int) {
			// deterministic, job-independent schedule of jumps: 1 min .. ~30 years
			spans := []time.Duration{time.Minute, 36 * time.Hour, 400 * 24 * time.Hour, 3 * time.Hour, 11 * 365 * 24 * time.Hour, 17 * time.Minute}
			if os.Getenv("ELYSSIM_FAKECLOCK_NO_JUMPS") == "" {
				d := spans[i%len(spans)]
				if time.Now().Year() >= 2150 {
					// the runtime's clock is int64 nanoseconds since 1970 and ends in 2262: a long run
					// stops making large jumps well before (beyond it time.Sleep's wake-up time
					// saturates and the runtime throws "bad g->status in ready")
					d = time.Minute
				}
				time.Sleep(d)
			}
		}
		cmdReexec([]string{job})
		fmt.Fprintf(os.Stderr, "fake clock moved %s during the re-execution\n", time.Since(t0))
		os.Stdout.Sync()
		os.Exit(0) // do not wait for background goroutines of dependencies at the end of the bubble
	})
}
