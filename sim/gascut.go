package main

import (
	"fmt"
	"strconv"
	"strings"

	storetypes "cosmossdk.io/store/types"
	sdk "github.com/cosmos/cosmos-sdk/types"

	elysapp "github.com/elys-network/elys/app"
)

// Exact gas cut: "the transaction dies at an arbitrary store access" made precise.
//
// A declared gas limit drawn up front can only guess where a handler will run dry. A
// transaction whose memo is "elyssim/gascut/<delta>" instead gets, on every node alike
// (the memo is part of the signed bytes, so replicas and the out-of-process re-execution
// treat it identically), a gas meter whose limit is exactly <delta> units short of what
// its messages need on the state they actually meet: the wrapper measures the need by
// running the messages on a discarded branch right after the ante handler, then swaps
// the meter. delta = 1 aborts at the very last gas charge of the handler; large deltas
// abort early. It is equivalent to a user who declared that limit; only the reported
// gas_wanted differs.
const gasCutPrefix = "elyssim/gascut/"

func gasCutMemo(delta int64) string { return gasCutPrefix + strconv.FormatInt(delta, 10) }

func installGasCut(app *elysapp.ElysApp) {
	ante := app.AnteHandler()
	app.SetAnteHandler(func(ctx sdk.Context, tx sdk.Tx, simulate bool) (sdk.Context, error) {
		newCtx, err := ante(ctx, tx, simulate)
		if err != nil {
			return newCtx, err
		}
		m, ok := tx.(sdk.TxWithMemo)
		if !ok || !strings.HasPrefix(m.GetMemo(), gasCutPrefix) {
			return newCtx, nil
		}
		delta, perr := strconv.ParseInt(strings.TrimPrefix(m.GetMemo(), gasCutPrefix), 10, 64)
		if perr != nil || delta < 0 {
			return newCtx, nil
		}
		need, ok := measureMsgs(app, obsCtx(newCtx), tx.GetMsgs())
		if !ok {
			return newCtx, nil // the messages fail anyway on this state
		}
		used := newCtx.GasMeter().GasConsumed()
		lim := used + 1
		if int64(need) > delta {
			lim = used + need - uint64(delta)
		}
		if lim > newCtx.GasMeter().Limit() {
			return newCtx, nil
		}
		gm := storetypes.NewGasMeter(lim)
		gm.ConsumeGas(used, "ante handler")
		return newCtx.WithGasMeter(gm), nil
	})
}

// measureMsgs runs the messages the way baseapp.runMsgs does, on a discarded branch with an
// infinite gas meter, and returns the gas they consume.
func measureMsgs(app *elysapp.ElysApp, ctx sdk.Context, msgs []sdk.Msg) (gas uint64, ok bool) {
	defer func() {
		if r := recover(); r != nil {
			ok = false
		}
	}()
	before := ctx.GasMeter().GasConsumed()
	for _, msg := range msgs {
		h := app.MsgServiceRouter().Handler(msg)
		if h == nil {
			return 0, false
		}
		if _, err := h(ctx, msg); err != nil {
			return 0, false
		}
	}
	return ctx.GasMeter().GasConsumed() - before, true
}

var _ = fmt.Sprintf
