package main

import (
	"encoding/json"
	"fmt"
	"sort"
	"time"

	"cosmossdk.io/math"
	abci "github.com/cometbft/cometbft/abci/types"
	cmted25519 "github.com/cometbft/cometbft/crypto/ed25519"
	cmtproto "github.com/cometbft/cometbft/proto/tendermint/types"
	cmttypes "github.com/cometbft/cometbft/types"
	codectypes "github.com/cosmos/cosmos-sdk/codec/types"
	cryptocodec "github.com/cosmos/cosmos-sdk/crypto/codec"
	"github.com/cosmos/cosmos-sdk/crypto/keys/secp256k1"
	sdk "github.com/cosmos/cosmos-sdk/types"
	authtypes "github.com/cosmos/cosmos-sdk/x/auth/types"
	banktypes "github.com/cosmos/cosmos-sdk/x/bank/types"
	govtypes "github.com/cosmos/cosmos-sdk/x/gov/types"
	govv1 "github.com/cosmos/cosmos-sdk/x/gov/types/v1"
	stakingtypes "github.com/cosmos/cosmos-sdk/x/staking/types"
	ibctypes "github.com/cosmos/ibc-go/v8/modules/core/02-client/types"
	ibcCommitment "github.com/cosmos/ibc-go/v8/modules/core/23-commitment/types"
	ibctmtypes "github.com/cosmos/ibc-go/v8/modules/light-clients/07-tendermint"
	consumertypes "github.com/cosmos/interchain-security/v6/x/ccv/consumer/types"
	ccvprovidertypes "github.com/cosmos/interchain-security/v6/x/ccv/provider/types"
	ccvtypes "github.com/cosmos/interchain-security/v6/x/ccv/types"

	elysapp "github.com/elys-network/elys/app"
	ammtypes "github.com/elys-network/elys/x/amm/types"
	aptypes "github.com/elys-network/elys/x/assetprofile/types"
	burnertypes "github.com/elys-network/elys/x/burner/types"
	commitmenttypes "github.com/elys-network/elys/x/commitment/types"
	epochstypes "github.com/elys-network/elys/x/epochs/types"
	leveragelptypes "github.com/elys-network/elys/x/leveragelp/types"
	mastercheftypes "github.com/elys-network/elys/x/masterchef/types"
	oracletypes "github.com/elys-network/elys/x/oracle/types"
	perpetualtypes "github.com/elys-network/elys/x/perpetual/types"
	stablestaketypes "github.com/elys-network/elys/x/stablestake/types"
	tokenomicstypes "github.com/elys-network/elys/x/tokenomics/types"
	tradeshieldtypes "github.com/elys-network/elys/x/tradeshield/types"
)

const (
	ChainID = "elyssim-1"

	DenomUSDC = "uusdc"
	DenomATOM = "uatom"
	DenomELYS = "uelys"
	DenomEDEN = "ueden"
	DenomEDENB = "uedenb"
	// IBC-style voucher denoms: the '/' matters for the amm batch-queue keys.
	DenomWBTC = "ibc/2180E84E20F5679FCC760D8C165B60F42065DEF7F46A72B447CFF1B7DC6C0A65"
	DenomTIA  = "ibc/45D6B52CAD911A15BD9C2F5FFDA80E26AFCB05C7CD520070790ABC86D2B24229"
	// An asset with an asset profile but no oracle info (constant-product pools only).
	DenomINC = "uinc"
)

// AssetDef is one asset of the simulated universe.
type AssetDef struct {
	Denom    string
	Display  string // oracle ticker
	Decimals uint64
	Price0   string // initial USD price of one display unit ("" = no oracle info)
}

var Universe = []AssetDef{
	{DenomUSDC, "USDC", 6, "1"},
	{DenomATOM, "ATOM", 6, "8"},
	{DenomELYS, "ELYS", 6, "0.5"},
	{DenomWBTC, "WBTC", 8, "60000"},
	{DenomTIA, "TIA", 6, "4"},
	{DenomINC, "INC", 6, ""},
}

// Account is a deterministic key pair known to the simulator.
type Account struct {
	Name string
	Priv *secp256k1.PrivKey
	Addr sdk.AccAddress
}

func NewAccount(name string) *Account {
	priv := secp256k1.GenPrivKeyFromSecret([]byte("elyssim/account/" + name))
	return &Account{Name: name, Priv: priv, Addr: sdk.AccAddress(priv.PubKey().Address())}
}

func (a *Account) String() string { return a.Addr.String() }

// GenesisConfig: the per-run (swarm) knobs that are fixed at genesis.
type GenesisConfig struct {
	NumUsers          int
	NumFeeders        int
	GenesisTime       time.Time
	OraclePriceExpiry uint64 // seconds
	OracleLifeBlocks  uint64
	VestingNumBlocks  int64
	VestNowFactor     int64
	NumMaxVestings    int64
	EnableVestNow     bool
	GovVotingPeriod   time.Duration
	BurnerEpoch       string
	LevLpNumPerBlock  int64
	LevLpEpochLength  int64
	LevLpSafety       string
	PerpSafety        string
	StableEpochLength int64
	PoolCreationFee   int64
	EdenRewards       bool // tokenomics time-based inflation present
	MinGasPrice       bool
	AmmFeeSplit       []string `json:"amm_fee_split,omitempty"` // {WeightBreakingFeePortion, WeightRecoveryFeePortion, WeightBreakingFeeMultiplier, ThresholdWeightDifference}; empty = module defaults
	Airdrops          bool `json:"airdrops,omitempty"` // tokenomics airdrop records in genesis: governance-owned (as in config.yml) and beneficiary-owned (the only kind MsgClaimAirdrop can pay)
}

func DefaultGenesisConfig() GenesisConfig {
	return GenesisConfig{
		NumUsers:          16,
		NumFeeders:        4,
		GenesisTime:       time.Unix(1_750_000_000, 0).UTC(),
		OraclePriceExpiry: 600,
		OracleLifeBlocks:  200,
		VestingNumBlocks:  40,
		VestNowFactor:     90,
		NumMaxVestings:    4,
		EnableVestNow:     true,
		GovVotingPeriod:   12 * time.Second,
		BurnerEpoch:       "five_minutes",
		LevLpNumPerBlock:  1000,
		LevLpEpochLength:  1,
		LevLpSafety:       "1.1",
		PerpSafety:        "1.025",
		StableEpochLength: 1,
		PoolCreationFee:   10_000_000,
		EdenRewards:       true,
	}
}

// World holds the identities of a run.
type World struct {
	Cfg       GenesisConfig
	Users     []*Account
	Feeders   []*Account
	ValOper   *Account
	ValPriv   cmted25519.PrivKey
	Protocol  *Account // masterchef protocol revenue address
	ByAddr    map[string]*Account
	GovAddr   sdk.AccAddress
	ValAddr   sdk.ValAddress
	ValSet    *cmttypes.ValidatorSet
	InitVals  []abci.ValidatorUpdate
	StartCoin math.Int
}

func NewWorld(cfg GenesisConfig) *World {
	w := &World{Cfg: cfg, ByAddr: map[string]*Account{}}
	for i := 0; i < cfg.NumUsers; i++ {
		w.Users = append(w.Users, NewAccount(fmt.Sprintf("u%02d", i)))
	}
	for i := 0; i < cfg.NumFeeders; i++ {
		w.Feeders = append(w.Feeders, NewAccount(fmt.Sprintf("feeder%d", i)))
	}
	w.ValOper = NewAccount("valoper0")
	w.Protocol = NewAccount("protocol-revenue")
	w.ValPriv = cmted25519.GenPrivKeyFromSecret([]byte("elyssim/validator/0"))
	for _, a := range w.AllAccounts() {
		w.ByAddr[a.Addr.String()] = a
	}
	w.GovAddr = authtypes.NewModuleAddress(govtypes.ModuleName)
	w.ValAddr = sdk.ValAddress(w.ValOper.Addr)
	val := cmttypes.NewValidator(w.ValPriv.PubKey(), 1)
	w.ValSet = cmttypes.NewValidatorSet([]*cmttypes.Validator{val})
	pub, _ := val.ToProto()
	w.InitVals = []abci.ValidatorUpdate{{Power: val.VotingPower, PubKey: pub.PubKey}}
	w.StartCoin = math.NewInt(1_000_000_000_000) // 1e12 base units of each asset
	return w
}

func (w *World) AllAccounts() []*Account {
	out := append([]*Account{}, w.Users...)
	out = append(out, w.Feeders...)
	out = append(out, w.ValOper, w.Protocol)
	return out
}

func mustJSON(app *elysapp.ElysApp, m interface{ ProtoMessage(); Reset(); String() string }) json.RawMessage {
	return app.AppCodec().MustMarshalJSON(m)
}

// BuildGenesis builds a genesis app state that is a pure function of cfg.
func BuildGenesis(app *elysapp.ElysApp, w *World) (elysapp.GenesisState, error) {
	cfg := w.Cfg
	cdc := app.AppCodec()
	gs := elysapp.NewDefaultGenesisState(app, cdc)
	gov := w.GovAddr.String()

	// ---- auth + bank
	var genAccs []authtypes.GenesisAccount
	var balances []banktypes.Balance
	total := sdk.NewCoins()
	for i, a := range w.AllAccounts() {
		genAccs = append(genAccs, authtypes.NewBaseAccount(a.Addr, nil, uint64(i), 0))
		coins := sdk.NewCoins()
		for _, as := range Universe {
			amt := w.StartCoin
			if as.Denom == DenomWBTC {
				amt = math.NewInt(100_000_000_000) // 1000 WBTC
			}
			if as.Denom == DenomELYS {
				amt = w.StartCoin.MulRaw(10)
			}
			coins = coins.Add(sdk.NewCoin(as.Denom, amt))
		}
		balances = append(balances, banktypes.Balance{Address: a.Addr.String(), Coins: coins})
		total = total.Add(coins...)
	}
	gs[authtypes.ModuleName] = cdc.MustMarshalJSON(authtypes.NewGenesisState(authtypes.DefaultParams(), genAccs))

	// ---- staking: one bonded validator (governor on the consumer chain)
	bondAmt := sdk.DefaultPowerReduction.MulRaw(1000)
	pk, err := cryptocodec.FromCmtPubKeyInterface(w.ValPriv.PubKey())
	if err != nil {
		return nil, err
	}
	pkAny, err := codectypes.NewAnyWithValue(pk)
	if err != nil {
		return nil, err
	}
	validator := stakingtypes.Validator{
		OperatorAddress:   w.ValAddr.String(),
		ConsensusPubkey:   pkAny,
		Status:            stakingtypes.Bonded,
		Tokens:            bondAmt,
		DelegatorShares:   math.LegacyNewDecFromInt(bondAmt),
		Description:       stakingtypes.Description{Moniker: "val0"},
		UnbondingTime:     time.Unix(0, 0).UTC(),
		Commission:        stakingtypes.NewCommission(math.LegacyNewDecWithPrec(5, 2), math.LegacyNewDecWithPrec(10, 2), math.LegacyNewDecWithPrec(10, 2)),
		MinSelfDelegation: math.OneInt(),
	}
	delegation := stakingtypes.NewDelegation(w.ValOper.Addr.String(), w.ValAddr.String(), math.LegacyNewDecFromInt(bondAmt))
	sp := stakingtypes.DefaultParams()
	sp.BondDenom = DenomELYS
	sp.UnbondingTime = 3600 * time.Second
	gs[stakingtypes.ModuleName] = cdc.MustMarshalJSON(stakingtypes.NewGenesisState(sp, []stakingtypes.Validator{validator}, []stakingtypes.Delegation{delegation}))
	bonded := sdk.NewCoins(sdk.NewCoin(DenomELYS, bondAmt))
	balances = append(balances, banktypes.Balance{Address: authtypes.NewModuleAddress(stakingtypes.BondedPoolName).String(), Coins: bonded})
	total = total.Add(bonded...)

	// bank metadata exactly as config.yml: only uelys and ueden
	meta := []banktypes.Metadata{
		{Base: DenomELYS, Display: "elys", Name: "elys", Symbol: "elys", Description: "Native Elys token definition",
			DenomUnits: []*banktypes.DenomUnit{{Denom: DenomELYS, Exponent: 0, Aliases: []string{"microelys"}}, {Denom: "melys", Exponent: 3, Aliases: []string{"millielys"}}, {Denom: "elys", Exponent: 6}}},
		{Base: DenomEDEN, Display: "eden", Name: "eden", Symbol: "eden", Description: "Eden token definition",
			DenomUnits: []*banktypes.DenomUnit{{Denom: DenomEDEN, Exponent: 0, Aliases: []string{"microeden"}}, {Denom: "meden", Exponent: 3, Aliases: []string{"millieden"}}, {Denom: "eden", Exponent: 6}}},
	}
	sort.Slice(balances, func(i, j int) bool { return balances[i].Address < balances[j].Address })
	gs[banktypes.ModuleName] = cdc.MustMarshalJSON(banktypes.NewGenesisState(banktypes.DefaultGenesisState().Params, balances, total, meta, []banktypes.SendEnabled{}))

	// ---- gov: short periods so authority messages go through the real gov module
	govGen := govv1.DefaultGenesisState()
	vp := cfg.GovVotingPeriod
	govGen.Params.VotingPeriod = &vp
	govGen.Params.MaxDepositPeriod = &vp
	ev := vp / 2
	govGen.Params.ExpeditedVotingPeriod = &ev
	govGen.Params.MinDeposit = sdk.NewCoins(sdk.NewInt64Coin(DenomELYS, 10_000_000))
	govGen.Params.ExpeditedMinDeposit = sdk.NewCoins(sdk.NewInt64Coin(DenomELYS, 50_000_000))
	govGen.Params.MinInitialDepositRatio = "0"
	gs[govtypes.ModuleName] = cdc.MustMarshalJSON(govGen)

	// ---- ccv consumer (deterministic timestamp instead of time.Now())
	cg := minimalConsumerGenesis(cfg.GenesisTime)
	cg.Provider.InitialValSet = w.InitVals
	cg.Provider.ConsensusState.NextValidatorsHash = w.ValSet.Hash()
	gs[consumertypes.ModuleName] = cdc.MustMarshalJSON(cg)

	// ---- epochs: defaults + the ones config.yml has that modules refer to
	ep := epochstypes.DefaultGenesisState()
	have := map[string]bool{}
	for _, e := range ep.Epochs {
		have[e.Identifier] = true
	}
	for _, e := range []struct {
		id string
		d  time.Duration
	}{{"day", 24 * time.Hour}, {"hour", time.Hour}, {"tenseconds", 10 * time.Second}, {"week", 168 * time.Hour}} {
		if !have[e.id] {
			ep.Epochs = append(ep.Epochs, epochstypes.EpochInfo{Identifier: e.id, Duration: e.d})
		}
	}
	gs[epochstypes.ModuleName] = cdc.MustMarshalJSON(ep)

	// ---- asset profile
	apGen := aptypes.DefaultGenesis()
	for _, as := range Universe {
		apGen.EntryList = append(apGen.EntryList, aptypes.Entry{
			BaseDenom: as.Denom, Denom: as.Denom, Decimals: as.Decimals, DisplayName: as.Display,
			Authority: gov, CommitEnabled: as.Denom != DenomELYS, WithdrawEnabled: true,
		})
	}
	apGen.EntryList = append(apGen.EntryList,
		aptypes.Entry{BaseDenom: DenomEDEN, Denom: DenomEDEN, Decimals: 6, DisplayName: "EDEN", Authority: gov, CommitEnabled: true, WithdrawEnabled: true},
		aptypes.Entry{BaseDenom: DenomEDENB, Denom: DenomEDENB, Decimals: 6, DisplayName: "EDEN-BOOST", Authority: gov, CommitEnabled: true, WithdrawEnabled: true},
	)
	gs[aptypes.ModuleName] = cdc.MustMarshalJSON(apGen)

	// ---- oracle
	og := oracletypes.DefaultGenesis()
	og.Params.PriceExpiryTime = cfg.OraclePriceExpiry
	og.Params.LifeTimeInBlocks = cfg.OracleLifeBlocks
	og.AssetInfos = nil
	og.Prices = nil
	for _, as := range Universe {
		if as.Price0 == "" {
			continue
		}
		og.AssetInfos = append(og.AssetInfos, oracletypes.AssetInfo{Denom: as.Denom, Display: as.Display, BandTicker: as.Display, ElysTicker: as.Display, Decimal: as.Decimals})
		og.Prices = append(og.Prices, oracletypes.Price{Asset: as.Display, Price: math.LegacyMustNewDecFromStr(as.Price0), Source: oracletypes.ELYS,
			Provider: w.Feeders[0].Addr.String(), Timestamp: uint64(cfg.GenesisTime.Unix()), BlockHeight: 0})
	}
	og.PriceFeeders = []oracletypes.PriceFeeder{{Feeder: gov, IsActive: true}}
	for _, f := range w.Feeders {
		og.PriceFeeders = append(og.PriceFeeders, oracletypes.PriceFeeder{Feeder: f.Addr.String(), IsActive: true})
	}
	gs[oracletypes.ModuleName] = cdc.MustMarshalJSON(og)

	// ---- amm
	ag := ammtypes.DefaultGenesis()
	ag.Params.PoolCreationFee = math.NewInt(cfg.PoolCreationFee)
	ag.Params.AllowedPoolCreators = []string{gov}
	for _, u := range w.Users[:min(4, len(w.Users))] {
		ag.Params.AllowedPoolCreators = append(ag.Params.AllowedPoolCreators, u.Addr.String())
	}
	if len(cfg.AmmFeeSplit) == 4 {
		ag.Params.WeightBreakingFeePortion = math.LegacyMustNewDecFromStr(cfg.AmmFeeSplit[0])
		ag.Params.WeightRecoveryFeePortion = math.LegacyMustNewDecFromStr(cfg.AmmFeeSplit[1])
		ag.Params.WeightBreakingFeeMultiplier = math.LegacyMustNewDecFromStr(cfg.AmmFeeSplit[2])
		ag.Params.ThresholdWeightDifference = math.LegacyMustNewDecFromStr(cfg.AmmFeeSplit[3])
	}
	gs[ammtypes.ModuleName] = cdc.MustMarshalJSON(ag)

	// ---- commitment
	cmg := commitmenttypes.DefaultGenesis()
	cmg.Params.VestingInfos = []commitmenttypes.VestingInfo{{
		BaseDenom: DenomEDEN, VestingDenom: DenomELYS, NumBlocks: cfg.VestingNumBlocks,
		VestNowFactor: math.NewInt(cfg.VestNowFactor), NumMaxVestings: cfg.NumMaxVestings,
	}}
	cmg.Params.EnableVestNow = cfg.EnableVestNow
	// users start with some liquid Eden / EdenB (as if earned as rewards) so that vesting flows are reachable early
	for _, u := range w.Users {
		cmg.Commitments = append(cmg.Commitments, &commitmenttypes.Commitments{Creator: u.Addr.String(),
			Claimed: sdk.NewCoins(sdk.NewInt64Coin(DenomEDEN, 5_000_000_000), sdk.NewInt64Coin(DenomEDENB, 1_000_000_000))})
	}
	gs[commitmenttypes.ModuleName] = cdc.MustMarshalJSON(cmg)

	// ---- burner
	bg := burnertypes.DefaultGenesis()
	bg.Params.EpochIdentifier = cfg.BurnerEpoch
	gs[burnertypes.ModuleName] = cdc.MustMarshalJSON(bg)

	// ---- stablestake
	sg := stablestaketypes.DefaultGenesis()
	sg.Params.EpochLength = cfg.StableEpochLength
	gs[stablestaketypes.ModuleName] = cdc.MustMarshalJSON(sg)

	// ---- leveragelp
	lg := leveragelptypes.DefaultGenesis()
	lg.Params.NumberPerBlock = cfg.LevLpNumPerBlock
	lg.Params.EpochLength = cfg.LevLpEpochLength
	lg.Params.SafetyFactor = math.LegacyMustNewDecFromStr(cfg.LevLpSafety)
	gs[leveragelptypes.ModuleName] = cdc.MustMarshalJSON(lg)

	// ---- perpetual
	pg := perpetualtypes.DefaultGenesis()
	pg.Params.SafetyFactor = math.LegacyMustNewDecFromStr(cfg.PerpSafety)
	gs[perpetualtypes.ModuleName] = cdc.MustMarshalJSON(pg)

	// ---- masterchef
	mg := masterchefGenesis(w)
	gs[mastercheftypes.ModuleName] = cdc.MustMarshalJSON(mg)

	// ---- tokenomics: Eden inflation schedule so LM / staking rewards flow
	tg := tokenomicstypes.DefaultGenesis()
	if cfg.EdenRewards {
		infl := &tokenomicstypes.InflationEntry{LmRewards: 9_999_999_000_000, IcsStakingRewards: 9_999_999_000_000, CommunityFund: 9_999_999_000_000, StrategicReserve: 9_999_999_000_000, TeamTokensVested: 9_999_999_000_000}
		tg.GenesisInflation = &tokenomicstypes.GenesisInflation{Inflation: infl, SeedVesting: 9_999_999_000_000, StrategicSalesVesting: 9_999_999_000_000, Authority: gov}
		tg.TimeBasedInflationList = []tokenomicstypes.TimeBasedInflation{{StartBlockHeight: 1, EndBlockHeight: 6_307_200, Description: "year 1", Inflation: infl, Authority: gov}}
	}
	if cfg.Airdrops {
		far := uint64(cfg.GenesisTime.Unix()) + 10*365*86400
		tg.AirdropList = append(tg.AirdropList, tokenomicstypes.Airdrop{Intent: "AtomStakers", Amount: 9_999_999_000_000, Authority: gov, Expiry: far})
		for _, u := range w.Users[:min(3, len(w.Users))] {
			tg.AirdropList = append(tg.AirdropList, tokenomicstypes.Airdrop{Intent: u.Addr.String(), Amount: 1_000_000, Authority: u.Addr.String(), Expiry: far})
		}
	}
	gs[tokenomicstypes.ModuleName] = cdc.MustMarshalJSON(tg)

	// ---- tradeshield defaults are fine
	gs[tradeshieldtypes.ModuleName] = cdc.MustMarshalJSON(tradeshieldtypes.DefaultGenesis())

	return gs, nil
}

func masterchefGenesis(w *World) *mastercheftypes.GenesisState {
	mg := mastercheftypes.DefaultGenesis()
	mg.Params.ProtocolRevenueAddress = w.Protocol.Addr.String()
	mg.Params.SupportedRewardDenoms = []*mastercheftypes.SupportedRewardDenom{{Denom: DenomINC, MinAmount: math.NewInt(1000)}}
	return mg
}

func minimalConsumerGenesis(ts time.Time) *ccvtypes.ConsumerGenesisState {
	g := ccvtypes.DefaultConsumerGenesisState()
	g.Params.Enabled = true
	g.NewChain = true
	g.Provider.ClientState = ccvprovidertypes.DefaultParams().TemplateClient
	g.Provider.ClientState.ChainId = "provider-sim"
	g.Provider.ClientState.LatestHeight = ibctypes.Height{RevisionNumber: 0, RevisionHeight: 1}
	trust, err := ccvtypes.CalculateTrustPeriod(g.Params.UnbondingPeriod, ccvprovidertypes.DefaultTrustingPeriodFraction)
	if err != nil {
		panic(err)
	}
	g.Provider.ClientState.TrustingPeriod = trust
	g.Provider.ClientState.UnbondingPeriod = g.Params.UnbondingPeriod
	g.Provider.ClientState.MaxClockDrift = ccvprovidertypes.DefaultMaxClockDrift
	g.Provider.ConsensusState = &ibctmtypes.ConsensusState{
		Timestamp: ts,
		Root:      ibcCommitment.MerkleRoot{Hash: []byte("dummy")},
	}
	return g
}

func defaultConsensusParams() *cmtproto.ConsensusParams {
	return &cmtproto.ConsensusParams{
		Block:     &cmtproto.BlockParams{MaxBytes: 22020096, MaxGas: -1},
		Evidence:  &cmtproto.EvidenceParams{MaxAgeNumBlocks: 302400, MaxAgeDuration: 504 * time.Hour, MaxBytes: 10000},
		Validator: &cmtproto.ValidatorParams{PubKeyTypes: []string{cmttypes.ABCIPubKeyTypeEd25519}},
	}
}
