package main

import (
	elysapp "github.com/elys-network/elys/app"
)

// TxHooks wraps the ante and post handler chain of a node (see txhooks.go).
type TxHooks struct {
	obs TxObserver
}

type TxObserver interface{}

func (h *TxHooks) install(app *elysapp.ElysApp) {}
