package main

import (
	"bytes"

	storetypes "cosmossdk.io/store/types"
	sdk "github.com/cosmos/cosmos-sdk/types"

	elysapp "github.com/elys-network/elys/app"
)

// TxObserver sees the exact state before and after the messages of one
// transaction. Both contexts are discarded cache contexts with an infinite gas
// meter and a private event manager: reading through them perturbs neither
// state nor gas nor events of the transaction.
type TxObserver interface {
	// PreTx: state after the ante handler (fee paid, sequence bumped), before messages.
	PreTx(ctx sdk.Context, t *ExecTx)
	// PostTx: state after the messages ran successfully (called only on success).
	PostTx(ctx sdk.Context, t *ExecTx)
}

// TxHooks wraps the ante and post handler chain of a node. The wrappers call
// the real handlers unchanged.
type TxHooks struct {
	sim       *Sim
	blk       *ExecBlock
	idx       int // index of the tx currently in flight
	Observers []TxObserver
}

func (h *TxHooks) beginBlock(eb *ExecBlock) { h.blk = eb; h.idx = -1 }

func obsCtx(ctx sdk.Context) sdk.Context {
	c := ctx.WithGasMeter(storetypes.NewInfiniteGasMeter()).WithBlockGasMeter(storetypes.NewInfiniteGasMeter()).WithEventManager(sdk.NewEventManager())
	cc, _ := c.CacheContext()
	return cc
}

func (h *TxHooks) install(app *elysapp.ElysApp) {
	ante := app.AnteHandler()
	app.SetAnteHandler(func(ctx sdk.Context, tx sdk.Tx, simulate bool) (sdk.Context, error) {
		// identify the transaction by its bytes: baseapp rejects some transactions
		// (ValidateBasic failures) before the ante handler is ever called
		if h.blk != nil {
			bz := ctx.TxBytes()
			for j := h.idx + 1; j < len(h.blk.Txs); j++ {
				if bytes.Equal(h.blk.Txs[j].Bytes, bz) {
					h.idx = j
					break
				}
			}
		}
		newCtx, err := ante(ctx, tx, simulate)
		if err == nil && h.blk != nil && h.idx < len(h.blk.Txs) {
			t := h.blk.Txs[h.idx]
			for _, o := range h.Observers {
				h.safe(func() { o.PreTx(obsCtx(newCtx), t) })
			}
		}
		return newCtx, err
	})
	app.SetPostHandler(func(ctx sdk.Context, tx sdk.Tx, simulate, success bool) (sdk.Context, error) {
		if success && h.blk != nil && h.idx >= 0 && h.idx < len(h.blk.Txs) {
			t := h.blk.Txs[h.idx]
			for _, o := range h.Observers {
				h.safe(func() { o.PostTx(obsCtx(ctx), t) })
			}
		}
		return ctx, nil
	})
}

func (h *TxHooks) safe(f func()) {
	defer func() {
		if r := recover(); r != nil {
			h.sim.Harness("tx observer panicked: %v", r)
		}
	}()
	f()
}
