package main

import (
	"fmt"
	"sort"
	"strings"

	"cosmossdk.io/math"
	abci "github.com/cometbft/cometbft/abci/types"
	sdk "github.com/cosmos/cosmos-sdk/types"
	banktypes "github.com/cosmos/cosmos-sdk/x/bank/types"
)

// Movement is one bank balance/supply movement reconstructed from events.
type Movement struct {
	Phase string // "begin" | "tx" | "end" | "pre"
	Tx    int    // tx index when Phase=="tx"
	Seq   int    // global order within the block
	Kind  string // "spent" | "received" | "transfer" | "mint" | "burn"
	Addr  string // spender / receiver / minter / burner; for transfer: recipient
	From  string // transfer sender
	Coins sdk.Coins
}

// Ledger is the per-block ledger of every balance and supply movement, built
// from bank events of N0's FinalizeBlock response, and self-checked against the
// real balances/supply at every block boundary.
type Ledger struct {
	prevBal    map[string]sdk.Coins
	prevSupply sdk.Coins
	Moves      []Movement // current block
	// cumulative plain user->address transfers ("donations") per recipient|denom
	Donated map[string]math.Int
	// BlockOK: the current block's events were consistent with the real balances/supply
	BlockOK     bool
	LastProblem string
}

func NewLedger(s *Sim) *Ledger {
	l := &Ledger{Donated: map[string]math.Int{}}
	l.prevBal, l.prevSupply = snapshotBank(s)
	return l
}

func snapshotBank(s *Sim) (map[string]sdk.Coins, sdk.Coins) {
	ctx := s.Ctx()
	m := map[string]sdk.Coins{}
	s.N0.App.BankKeeper.IterateAllBalances(ctx, func(addr sdk.AccAddress, c sdk.Coin) bool {
		k := addr.String()
		m[k] = m[k].Add(c)
		return false
	})
	var sup sdk.Coins
	s.N0.App.BankKeeper.IterateTotalSupply(ctx, func(c sdk.Coin) bool {
		sup = sup.Add(c)
		return false
	})
	return m, sup
}

func attr(ev abci.Event, key string) string {
	for _, a := range ev.Attributes {
		if a.Key == key {
			return a.Value
		}
	}
	return ""
}

func (l *Ledger) ingestEvents(evs []abci.Event, phase string, tx int, seq *int) error {
	for _, ev := range evs {
		var kind, addr, from string
		switch ev.Type {
		case banktypes.EventTypeCoinSpent:
			kind, addr = "spent", attr(ev, banktypes.AttributeKeySpender)
		case banktypes.EventTypeCoinReceived:
			kind, addr = "received", attr(ev, banktypes.AttributeKeyReceiver)
		case banktypes.EventTypeTransfer:
			kind, addr, from = "transfer", attr(ev, banktypes.AttributeKeyRecipient), attr(ev, banktypes.AttributeKeySender)
		case banktypes.EventTypeCoinMint:
			kind, addr = "mint", attr(ev, banktypes.AttributeKeyMinter)
		case banktypes.EventTypeCoinBurn:
			kind, addr = "burn", attr(ev, banktypes.AttributeKeyBurner)
		default:
			continue
		}
		amt := attr(ev, sdk.AttributeKeyAmount)
		var coins sdk.Coins
		if amt != "" {
			c, err := sdk.ParseCoinsNormalized(amt)
			if err != nil {
				return fmt.Errorf("ledger: cannot parse amount %q of %s event: %v", amt, ev.Type, err)
			}
			coins = c
		}
		ph := phase
		if phase == "block" {
			switch attr(ev, "mode") {
			case "BeginBlock":
				ph = "begin"
			case "EndBlock":
				ph = "end"
			case "PreBlock":
				ph = "pre"
			default:
				ph = "block?"
			}
		}
		l.Moves = append(l.Moves, Movement{Phase: ph, Tx: tx, Seq: *seq, Kind: kind, Addr: addr, From: from, Coins: coins})
		*seq++
	}
	return nil
}

// Ingest rebuilds the ledger for a block and self-checks it.
func (l *Ledger) Ingest(s *Sim, eb *ExecBlock) {
	l.Moves = l.Moves[:0]
	seq := 0
	// begin-block events come first in Resp.Events, end-block events last; tx
	// events sit between them in time. Order: begin, txs, end.
	var begin, end []abci.Event
	for _, ev := range eb.Res.Resp.Events {
		if attr(ev, "mode") == "EndBlock" {
			end = append(end, ev)
		} else {
			begin = append(begin, ev)
		}
	}
	if err := l.ingestEvents(begin, "block", -1, &seq); err != nil {
		s.Harness("%v", err)
	}
	for i, r := range eb.Res.Resp.TxResults {
		if err := l.ingestEvents(r.Events, "tx", i, &seq); err != nil {
			s.Harness("%v", err)
		}
	}
	if err := l.ingestEvents(end, "block", -1, &seq); err != nil {
		s.Harness("%v", err)
	}
	// self-check: sum of event deltas == real balance / supply difference
	bal, sup := snapshotBank(s)
	delta := map[string]sdk.Coins{} // positive part
	neg := map[string]sdk.Coins{}
	var minted, burned sdk.Coins
	for _, m := range l.Moves {
		switch m.Kind {
		case "received":
			delta[m.Addr] = delta[m.Addr].Add(m.Coins...)
		case "spent":
			neg[m.Addr] = neg[m.Addr].Add(m.Coins...)
		case "mint":
			minted = minted.Add(m.Coins...)
		case "burn":
			burned = burned.Add(m.Coins...)
		}
	}
	addrs := map[string]bool{}
	for a := range bal {
		addrs[a] = true
	}
	for a := range l.prevBal {
		addrs[a] = true
	}
	for a := range delta {
		addrs[a] = true
	}
	for a := range neg {
		addrs[a] = true
	}
	var bad []string
	for a := range addrs {
		want := l.prevBal[a].Add(delta[a]...)
		got, isNeg := want.SafeSub(neg[a]...)
		if isNeg || !got.Equal(bal[a]) {
			bad = append(bad, fmt.Sprintf("%s: prev=%s +%s -%s real=%s", a, l.prevBal[a], delta[a], neg[a], bal[a]))
		}
	}
	// A mismatch means the event stream of this block does not describe what happened to the
	// balances (e.g. code under test that emits the events of a cached context twice). The
	// ledger of this block is then unusable: ledger-based checks skip the block, state-based
	// monitors carry on, and the driver refuses to call a ledger-dependent property "held"
	// on a batch that contains such blocks (exit 2, never a VIOLATION).
	l.BlockOK = true
	if len(bad) > 0 {
		sort.Strings(bad)
		l.BlockOK = false
		l.LastProblem = fmt.Sprintf("h=%d: bank events do not explain balance changes: %s", eb.Height, strings.Join(bad[:min(len(bad), 3)], " | "))
	}
	wantSup, isNeg := l.prevSupply.Add(minted...).SafeSub(burned...)
	if isNeg || !wantSup.Equal(sup) {
		l.BlockOK = false
		l.LastProblem = fmt.Sprintf("h=%d: supply: prev=%s +%s -%s real=%s", eb.Height, l.prevSupply, minted, burned, sup)
	}
	if !l.BlockOK {
		s.Stats.Inc("ledger_inconsistent_blocks", 1)
		l.Moves = l.Moves[:0]
	}
	l.prevBal, l.prevSupply = bal, sup
	s.Stats.Inc("ledger_movements", float64(len(l.Moves)))
}

// PrevBalance is the balance of addr at the previous block boundary... after
// Ingest it is the balance at the current boundary.
func (l *Ledger) Balance(addr, denom string) math.Int { return l.prevBal[addr].AmountOf(denom) }
func (l *Ledger) Supply(denom string) math.Int        { return l.prevSupply.AmountOf(denom) }
func (l *Ledger) Balances() map[string]sdk.Coins      { return l.prevBal }
func (l *Ledger) AllSupply() sdk.Coins                { return l.prevSupply }

// NetDelta returns the net balance change of addr in denom caused by the
// movements selected by sel.
func (l *Ledger) NetDelta(addr, denom string, sel func(m *Movement) bool) math.Int {
	d := math.ZeroInt()
	for i := range l.Moves {
		m := &l.Moves[i]
		if m.Addr != addr || (sel != nil && !sel(m)) {
			continue
		}
		switch m.Kind {
		case "received":
			d = d.Add(m.Coins.AmountOf(denom))
		case "spent":
			d = d.Sub(m.Coins.AmountOf(denom))
		}
	}
	return d
}

func selTx(i int) func(m *Movement) bool {
	return func(m *Movement) bool { return m.Phase == "tx" && m.Tx == i }
}
func selPhase(p string) func(m *Movement) bool {
	return func(m *Movement) bool { return m.Phase == p }
}
