package main

import (
	"fmt"
	"os"
	"time"

	sdk "github.com/cosmos/cosmos-sdk/types"
	elysapp "github.com/elys-network/elys/app"
)

func initSDKConfig() {
	p := elysapp.AccountAddressPrefix
	c := sdk.GetConfig()
	c.SetBech32PrefixForAccount(p, p+"pub")
	c.SetBech32PrefixForValidator(p+"valoper", p+"valoperpub")
	c.SetBech32PrefixForConsensusNode(p+"valcons", p+"valconspub")
	c.Seal()
}

func main() {
	initSDKConfig()
	w := NewWorld(DefaultGenesisConfig())
	t0 := time.Now()
	n, err := NewNode("n0", NewSimDB(), nil)
	if err != nil {
		panic(err)
	}
	if err := n.InitChain(w); err != nil {
		panic(err)
	}
	fmt.Println("init", time.Since(t0))
	tm := w.Cfg.GenesisTime
	for h := int64(1); h <= 10; h++ {
		tm = tm.Add(5 * time.Second)
		t1 := time.Now()
		res := n.Apply(w, &Block{Height: h, Time: tm})
		if res.Err != nil || res.Panic != "" {
			fmt.Println("ERR", res.Err, res.Panic)
			os.Exit(1)
		}
		fmt.Printf("h=%d hash=%X dt=%v events=%d\n", h, res.AppHash[:6], time.Since(t1), len(res.Resp.Events))
	}
}
