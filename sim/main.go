package main

import (
	"crypto/sha256"
	"encoding/hex"
	"encoding/json"
	"flag"
	"fmt"
	"os"
	"os/exec"
	"path/filepath"
	"sort"
	"strconv"
	"strings"
	"time"

	sdk "github.com/cosmos/cosmos-sdk/types"
	elysapp "github.com/elys-network/elys/app"
)

func initSDKConfig() {
	p := elysapp.AccountAddressPrefix
	c := sdk.GetConfig()
	c.SetBech32PrefixForAccount(p, p+"pub")
	c.SetBech32PrefixForValidator(p+"valoper", p+"valoperpub")
	c.SetBech32PrefixForConsensusNode(p+"valcons", p+"valconspub")
	c.Seal()
}

// RunResult is what one simulated run reports.
type RunResult struct {
	Seed       uint64             `json:"seed"`
	Profile    string             `json:"profile"`
	Tier       string             `json:"tier"`
	Blocks     int64              `json:"blocks"`
	Counters   map[string]float64 `json:"counters"`
	States     []uint64           `json:"states"`
	Grams      []uint64           `json:"grams"`
	Violations []Violation        `json:"violations"`
	HarnessErr string             `json:"harness_err,omitempty"`
	TraceHash  string             `json:"trace_hash"`
	LogHash    string             `json:"log_hash"` // hash of (per-height app hashes + tx codes): determinism self-test
	WallMs     int64              `json:"wall_ms"`
	Sample     json.RawMessage    `json:"sample,omitempty"`
	TracePath  string             `json:"trace_path,omitempty"`
}

func seedFor(base uint64, idx int) uint64 {
	return base*0x9E3779B97F4A7C15 + uint64(idx)*0xD1B54A32D192ED03 + 0x2545F4914F6CDD1D
}

func runOne(seed uint64, profile, tier string, verbose bool, keepTrace bool) (*RunResult, *Sim) {
	t0 := time.Now()
	cfg := MakeConfig(seed, profile, tier)
	cfg.Verbose = verbose
	res := &RunResult{Seed: seed, Profile: profile, Tier: tier}
	s, err := NewSim(seed, cfg, nil)
	if err != nil {
		res.HarnessErr = "boot: " + err.Error()
		return res, nil
	}
	s.Run()
	fillResult(res, s)
	res.WallMs = time.Since(t0).Milliseconds()
	return res, s
}

func fillResult(res *RunResult, s *Sim) {
	res.Blocks = s.Height
	res.Counters = s.Stats.C
	for k := range s.Stats.States {
		res.States = append(res.States, k)
	}
	for k := range s.Stats.Grams {
		res.Grams = append(res.Grams, k)
	}
	sort.Slice(res.States, func(i, j int) bool { return res.States[i] < res.States[j] })
	sort.Slice(res.Grams, func(i, j int) bool { return res.Grams[i] < res.Grams[j] })
	res.Violations = s.Violations
	res.HarnessErr = s.HarnessErr
	res.TraceHash = traceHash(s.Trace)
	h := sha256.New()
	for _, x := range s.Hashes {
		h.Write([]byte(x))
	}
	h.Write([]byte(s.codesLog.String()))
	res.LogHash = hex.EncodeToString(h.Sum(nil))[:24]
}

func traceHash(t *Trace) string {
	bz, _ := json.Marshal(t.Blocks)
	x := sha256.Sum256(bz)
	return hex.EncodeToString(x[:])[:24]
}

func abbreviateTrace(t *Trace, maxBlocks int) json.RawMessage {
	type ab struct {
		H      int      `json:"h"`
		DtMs   int64    `json:"dt_ms"`
		Faults []Fault  `json:"faults,omitempty"`
		Txs    []string `json:"txs"`
	}
	var out []ab
	for i, b := range t.Blocks {
		if len(out) >= maxBlocks {
			break
		}
		if len(b.Txs) == 0 && len(b.Faults) == 0 {
			continue
		}
		a := ab{H: i + 1, DtMs: b.DtMs, Faults: b.Faults}
		for _, tx := range b.Txs {
			typ := "?"
			if len(tx.MsgsJSON) > 0 {
				var m map[string]any
				_ = json.Unmarshal([]byte(tx.MsgsJSON[0]), &m)
				typ, _ = m["@type"].(string)
			}
			a.Txs = append(a.Txs, fmt.Sprintf("%s gas=%d %s", shortType(typ), tx.Gas, tx.Tag))
		}
		out = append(out, a)
	}
	bz, _ := json.Marshal(out)
	return bz
}

func main() {
	initSDKConfig()
	if len(os.Args) < 2 {
		fmt.Fprintln(os.Stderr, "usage: elyssim one|batch|worker|replay|selftest ...")
		os.Exit(2)
	}
	switch os.Args[1] {
	case "one":
		cmdOne(os.Args[2:])
	case "worker":
		cmdWorker(os.Args[2:])
	case "batch":
		cmdBatch(os.Args[2:])
	case "replay":
		cmdReplay(os.Args[2:])
	case "selftest":
		cmdSelftest(os.Args[2:])
	case "reexec":
		cmdReexec(os.Args[2:])
	case "seq":
		cmdSeq(os.Args[2:])
	case "trytrace":
		cmdTryTrace(os.Args[2:])
	default:
		fmt.Fprintln(os.Stderr, "unknown command", os.Args[1])
		os.Exit(2)
	}
}

func cmdOne(args []string) {
	fs := flag.NewFlagSet("one", flag.ExitOnError)
	profile := fs.String("profile", "C19", "")
	tier := fs.String("tier", "quick", "")
	seed := fs.Uint64("seed", 1, "")
	verbose := fs.Bool("v", false, "")
	dump := fs.String("dump", "", "write full trace here")
	_ = fs.Parse(args)
	res, s := runOne(*seed, *profile, *tier, *verbose, true)
	fmt.Printf("seed=%d blocks=%d wall=%dms tx_ok=%v tx_fail=%v states=%d grams=%d trace=%s log=%s\n", res.Seed, res.Blocks, res.WallMs, res.Counters["tx_ok"], res.Counters["tx_fail"], len(res.States), len(res.Grams), res.TraceHash, res.LogHash)
	ks := make([]string, 0)
	for k := range res.Counters {
		ks = append(ks, k)
	}
	sort.Strings(ks)
	for _, k := range ks {
		fmt.Printf("  %-60s %v\n", k, res.Counters[k])
	}
	for _, v := range res.Violations {
		fmt.Printf("VIOLATION-RAW %s culprit=%s h=%d known=%q\n    %s\n", v.Class(), v.Culprit, v.Height, v.Known, v.Detail)
	}
	if res.HarnessErr != "" {
		fmt.Println("HARNESS ERROR:", res.HarnessErr)
	}
	if *dump != "" && s != nil {
		bz, _ := json.MarshalIndent(s.Trace, "", " ")
		_ = os.WriteFile(*dump, bz, 0o644)
	}
}

// cmdWorker runs a slice of the batch's runs and writes one JSON line per run.
func cmdWorker(args []string) {
	fs := flag.NewFlagSet("worker", flag.ExitOnError)
	profile := fs.String("profile", "", "")
	tier := fs.String("tier", "quick", "")
	base := fs.Uint64("seed", 1, "")
	from := fs.Int("from", 0, "")
	step := fs.Int("step", 1, "")
	runs := fs.Int("runs", 1, "")
	deadline := fs.Int64("deadline", 0, "unix seconds after which no new run starts")
	out := fs.String("out", "", "")
	traceDir := fs.String("tracedir", "", "")
	_ = fs.Parse(args)
	f, err := os.Create(*out)
	if err != nil {
		fmt.Fprintln(os.Stderr, err)
		os.Exit(2)
	}
	defer f.Close()
	enc := json.NewEncoder(f)
	for i := *from; i < *runs; i += *step {
		if *deadline > 0 && time.Now().Unix() > *deadline {
			break
		}
		seed := seedFor(*base, i)
		res, s := runOne(seed, *profile, *tier, false, false)
		if s != nil {
			if len(res.Violations) > 0 || res.HarnessErr != "" {
				p := filepath.Join(*traceDir, fmt.Sprintf("trace-%d.json", seed))
				bz, _ := json.Marshal(s.Trace)
				_ = os.WriteFile(p, bz, 0o644)
				res.TracePath = p
			}
			if i < 2*(*step) {
				res.Sample = abbreviateTrace(s.Trace, 12)
			}
		}
		if err := enc.Encode(res); err != nil {
			fmt.Fprintln(os.Stderr, err)
			os.Exit(2)
		}
	}
}

func envInt(name string, def int) int {
	if v := os.Getenv(name); v != "" {
		if n, err := strconv.Atoi(v); err == nil {
			return n
		}
	}
	return def
}

func cmdSelftest(args []string) {
	fs := flag.NewFlagSet("selftest", flag.ExitOnError)
	n := fs.Int("seeds", 8, "")
	profile := fs.String("profile", "C19", "")
	_ = fs.Parse(args)
	self, _ := os.Executable()
	bad := 0
	for i := 0; i < *n; i++ {
		seed := seedFor(424242, i)
		var hashes []string
		for _, env := range [][]string{{"GOMAXPROCS=1", "TZ=UTC"}, {"GOMAXPROCS=4", "TZ=Asia/Tokyo"}, {"GOMAXPROCS=16", "TZ=America/Lima"}} {
			cmd := exec.Command(self, "one", "-profile", *profile, "-seed", fmt.Sprint(seed))
			cmd.Env = append(os.Environ(), env...)
			outb, err := cmd.CombinedOutput()
			if err != nil {
				fmt.Println("selftest: run failed:", err, string(outb))
				os.Exit(2)
			}
			first := strings.SplitN(string(outb), "\n", 2)[0]
			idx := strings.Index(first, "tx_ok=")
			hashes = append(hashes, first[idx:])
		}
		if hashes[0] != hashes[1] || hashes[1] != hashes[2] {
			bad++
			fmt.Printf("NONDETERMINISM seed=%d\n  %s\n  %s\n  %s\n", seed, hashes[0], hashes[1], hashes[2])
		} else {
			fmt.Printf("ok seed=%d %s\n", seed, hashes[0])
		}
	}
	// process-history independence: the same seeds, one after the other in ONE process, must give
	// the same hashes as each seed in a process of its own (package-level state in the code under
	// test or in the harness would show here; workers run many seeds per process)
	var list []string
	fresh := map[string]string{}
	for i := 0; i < *n && i < 6; i++ {
		seed := seedFor(424242, i)
		list = append(list, fmt.Sprint(seed))
		cmd := exec.Command(self, "seq", "-profile", *profile, "-seeds", fmt.Sprint(seed))
		outb, err := cmd.CombinedOutput()
		if err != nil {
			fmt.Println("selftest: seq run failed:", err, string(outb))
			os.Exit(2)
		}
		fresh[fmt.Sprint(seed)] = strings.TrimSpace(string(outb))
	}
	cmd := exec.Command(self, "seq", "-profile", *profile, "-seeds", strings.Join(list, ","))
	outb, err := cmd.CombinedOutput()
	if err != nil {
		fmt.Println("selftest: seq run failed:", err, string(outb))
		os.Exit(2)
	}
	for _, ln := range strings.Split(strings.TrimSpace(string(outb)), "\n") {
		f := strings.Fields(ln)
		if len(f) == 0 {
			continue
		}
		seed := strings.TrimPrefix(f[0], "seed=")
		if fresh[seed] != strings.TrimSpace(ln) {
			bad++
			fmt.Printf("PROCESS-HISTORY DEPENDENCE seed=%s\n  alone:       %s\n  in sequence: %s\n", seed, fresh[seed], ln)
		} else {
			fmt.Printf("ok history-independent seed=%s\n", seed)
		}
	}
	if bad > 0 {
		os.Exit(2)
	}
}

// cmdSeq runs several seeds one after the other in ONE process and prints each run's hashes:
// compared with the same seeds run in fresh processes it exposes dependence on process history
// (package-level state in the code under test or in the harness).
func cmdSeq(args []string) {
	fs := flag.NewFlagSet("seq", flag.ExitOnError)
	profile := fs.String("profile", "C19", "")
	tier := fs.String("tier", "quick", "")
	seeds := fs.String("seeds", "", "comma separated")
	_ = fs.Parse(args)
	for _, x := range strings.Split(*seeds, ",") {
		seed, err := strconv.ParseUint(strings.TrimSpace(x), 10, 64)
		if err != nil {
			continue
		}
		res, _ := runOne(seed, *profile, *tier, false, false)
		var vs []string
		for _, v := range res.Violations {
			vs = append(vs, v.Class())
		}
		fmt.Printf("seed=%d blocks=%d trace=%s log=%s violations=%v harness=%q\n", res.Seed, res.Blocks, res.TraceHash, res.LogHash, vs, truncate(res.HarnessErr, 100))
	}
}
