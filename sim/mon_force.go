package main

import (
	"fmt"

	"cosmossdk.io/core/appmodule"
	sdkmath "cosmossdk.io/math"
	sdk "github.com/cosmos/cosmos-sdk/types"
	"github.com/cosmos/cosmos-sdk/types/query"

	leveragelptypes "github.com/elys-network/elys/x/leveragelp/types"
	perpetualtypes "github.com/elys-network/elys/x/perpetual/types"
)

// ---------------------------------------------------------------------------
// C10 — third parties may force-close only when allowed; opens start healthy
//
// At the exact moment (pre-state of the transaction through the ante wrapper;
// committed state + new block header for the begin-block sweep) the monitor
// evaluates, on a discarded cache context, the chain's own health functions
// (after the accrual the handler itself performs) and the trigger prices. A
// position that is clearly not closable (health above the safety factor and no
// trigger reached) must come out of a third party's close-positions message, or
// out of the sweep, with its size, collateral, principal and its owner's wallet
// unchanged. Every successful open leaves the position with health > safety.

type lpCond struct {
	pos      leveragelptypes.Position
	health   sdkmath.LegacyDec
	lpPrice  sdkmath.LegacyDec
	safety   sdkmath.LegacyDec
	unhealthy bool // health <= safety factor (the only condition under which a lock-up may be overridden, C12)
	allowed  bool // closable: health <= safety or stop-loss reached
	clear    bool // clearly NOT closable even with a 2 % margin (other closes in the same step move prices)
	borrowed sdkmath.Int
	wallet   sdk.Coins
	ok       bool
}

type perpCond struct {
	mtp     perpetualtypes.MTP
	health  sdkmath.LegacyDec
	price   sdkmath.LegacyDec
	safety  sdkmath.LegacyDec
	allowed bool
	clear   bool
	custody sdkmath.Int // custody after the settlement the handler performs first
	wallet  sdk.Coins
	ok      bool
}

type MonC10 struct {
	sim      *Sim
	lpPre    map[int][]lpCond
	perpPre  map[int][]perpCond
	sweepPre []lpCond
	sweepFor int64
	sweepConds []lpCond         // the sweep's conditions of the current block (kept for the C12 lock-up monitor)
	lpAllCur   []lpCond
	lpAll      map[int][]lpCond // per transaction: every position named in a close-positions message, the signer's own included
	openLP   map[int]map[uint64]string
	openPerp map[int]map[uint64]string
}

func newMonC10(s *Sim) *MonC10 {
	return &MonC10{sim: s, lpAll: map[int][]lpCond{}, lpPre: map[int][]lpCond{}, perpPre: map[int][]perpCond{}, openLP: map[int]map[uint64]string{}, openPerp: map[int]map[uint64]string{}}
}

func (m *MonC10) Name() string { return "C10" }
func (m *MonC10) AtEnd(s *Sim)  {}

var margin = sdkmath.LegacyMustNewDecFromStr("1.02")

func (m *MonC10) evalLP(ctx sdk.Context, owner string, id uint64) lpCond {
	app := m.sim.N0.App
	cc, _ := ctx.CacheContext()
	addr, err := sdk.AccAddressFromBech32(owner)
	if err != nil {
		return lpCond{}
	}
	pos, err := app.LeveragelpKeeper.GetPosition(cc, addr, id)
	if err != nil {
		return lpCond{}
	}
	c := lpCond{pos: pos, ok: true, safety: app.LeveragelpKeeper.GetParams(cc).SafetyFactor}
	c.wallet = app.BankKeeper.GetAllBalances(cc, addr)
	func() {
		defer func() {
			if r := recover(); r != nil {
				c.ok = false
			}
		}()
		h, err := app.LeveragelpKeeper.GetPositionHealth(cc, pos) // accrues interest on the cache, as the handler does
		if err != nil {
			c.ok = false
			return
		}
		c.health = h
		c.borrowed = app.StablestakeKeeper.GetDebt(cc, pos.GetPositionAddress()).Borrowed
		ammPool, found := app.AmmKeeper.GetPool(cc, pos.AmmPoolId)
		if !found {
			c.ok = false
			return
		}
		price, err := ammPool.LpTokenPrice(cc, app.OracleKeeper, app.AccountedPoolKeeper)
		if err != nil {
			c.ok = false
			return
		}
		c.lpPrice = price
	}()
	if !c.ok {
		return c
	}
	slSet := !c.pos.StopLossPrice.IsNil() && c.pos.StopLossPrice.IsPositive()
	c.unhealthy = c.health.LTE(c.safety)
	c.allowed = c.health.LTE(c.safety) || (!c.pos.StopLossPrice.IsNil() && c.lpPrice.LTE(c.pos.StopLossPrice))
	c.clear = c.health.GT(c.safety.Mul(margin)) && (!slSet || c.lpPrice.GT(c.pos.StopLossPrice.Mul(margin)))
	return c
}

func (m *MonC10) evalPerp(ctx sdk.Context, owner string, id uint64) perpCond {
	app := m.sim.N0.App
	cc, _ := ctx.CacheContext()
	addr, err := sdk.AccAddressFromBech32(owner)
	if err != nil {
		return perpCond{}
	}
	mtp, err := app.PerpetualKeeper.GetMTP(cc, addr, id)
	if err != nil {
		return perpCond{}
	}
	c := perpCond{mtp: mtp, ok: true, safety: app.PerpetualKeeper.GetParams(cc).SafetyFactor}
	c.wallet = app.BankKeeper.GetAllBalances(cc, addr)
	func() {
		defer func() {
			if r := recover(); r != nil {
				c.ok = false
			}
		}()
		k := app.PerpetualKeeper
		pool, found := k.GetPool(cc, mtp.AmmPoolId)
		if !found {
			c.ok = false
			return
		}
		ammPool, err := k.GetAmmPool(cc, mtp.AmmPoolId)
		if err != nil {
			c.ok = false
			return
		}
		w := mtp
		k.UpdateMTPBorrowInterestUnpaidLiability(cc, &w)
		if _, err := k.SettleMTPBorrowInterestUnpaidLiability(cc, &w, &pool, ammPool); err != nil {
			c.ok = false
			return
		}
		if err := k.SettleFunding(cc, &w, &pool, ammPool); err != nil {
			c.ok = false
			return
		}
		h, err := k.GetMTPHealth(cc, w, ammPool, DenomUSDC)
		if err != nil {
			c.ok = false
			return
		}
		c.health = h
		c.custody = w.Custody
		price, err := k.GetAssetPrice(cc, mtp.TradingAsset)
		if err != nil {
			c.ok = false
			return
		}
		c.price = price
	}()
	if !c.ok {
		return c
	}
	long := mtp.Position == perpetualtypes.Position_LONG
	sl, tp := mtp.StopLossPrice, mtp.TakeProfitPrice
	slHit, tpHit, slNear, tpNear := false, false, false, false
	// a stop-loss price of zero means "not set" (the chain's own convention: MsgOpen replaces it,
	// MsgUpdateStopLoss skips its checks for it)
	if !sl.IsNil() && sl.IsPositive() {
		if long {
			slHit, slNear = c.price.LTE(sl), c.price.LTE(sl.Mul(margin))
		} else {
			slHit, slNear = c.price.GTE(sl), c.price.Mul(margin).GTE(sl)
		}
	}
	if !tp.IsNil() {
		if long {
			tpHit, tpNear = c.price.GTE(tp), c.price.Mul(margin).GTE(tp)
		} else {
			tpHit, tpNear = c.price.LTE(tp), c.price.LTE(tp.Mul(margin))
		}
	}
	c.allowed = c.health.LTE(c.safety) || slHit || tpHit
	c.clear = c.health.GT(c.safety.Mul(margin)) && !slNear && !tpNear
	return c
}

func (m *MonC10) PreTx(ctx sdk.Context, t *ExecTx) {
	m.checkSweep(ctx, "BeginBlock(sweep)")
	signer := t.Spec.Signer
	// positions of the creator before an open: only the one the open creates or changes is checked
	for _, msg := range flattenMsgs(t.Spec.Msgs) {
		switch x := msg.(type) {
		case *leveragelptypes.MsgOpen:
			snap := map[uint64]string{}
			for _, p := range m.sim.N0.App.LeveragelpKeeper.GetAllPositions(ctx) {
				if p.Address == x.Creator {
					snap[p.Id] = p.LeveragedLpAmount.String() + "/" + p.Collateral.String() + "/" + p.Liabilities.String()
				}
			}
			m.openLP[t.Index] = snap
		case *perpetualtypes.MsgOpen:
			snap := map[uint64]string{}
			for _, p := range m.sim.N0.App.PerpetualKeeper.GetAllMTPs(ctx) {
				if p.Address == x.Creator {
					snap[p.Id] = p.Custody.String() + "/" + p.Collateral.String() + "/" + p.Liabilities.String()
				}
			}
			m.openPerp[t.Index] = snap
		}
	}
	for _, msg := range flattenMsgs(t.Spec.Msgs) {
		switch x := msg.(type) {
		case *leveragelptypes.MsgClosePositions:
			m.lpAllCur = nil
			m.lpPre[t.Index] = append(m.lpPre[t.Index], m.replayLevLP(ctx, x, signer)...)
			m.lpAll[t.Index] = append(m.lpAll[t.Index], m.lpAllCur...)
		case *perpetualtypes.MsgClosePositions:
			m.perpPre[t.Index] = append(m.perpPre[t.Index], m.replayPerp(ctx, x, signer)...)
		}
	}
}

// replayLevLP walks the message exactly as the handler does, on a discarded cache
// context, using the chain's own functions for the effects of each entry, and
// evaluates every named position at the exact moment its entry is processed. A
// position counts as closable if it was closable at ANY of its entries.
func (m *MonC10) replayLevLP(ctx sdk.Context, x *leveragelptypes.MsgClosePositions, signer string) []lpCond {
	app := m.sim.N0.App
	k := app.LeveragelpKeeper
	cc, _ := ctx.CacheContext()
	byKey := map[string]*lpCond{}
	var order []string
	note := func(c lpCond) {
		key := fmt.Sprintf("%s/%d", c.pos.Address, c.pos.Id)
		if prev, ok := byKey[key]; ok {
			if c.allowed {
				prev.allowed = true
			}
			return
		}
		cp := c
		byKey[key] = &cp
		order = append(order, key)
	}
	step := func(r *leveragelptypes.PositionRequest, stopLoss bool) {
		defer func() { _ = recover() }()
		if r == nil {
			return
		}
		c := m.evalLP(cc, r.Address, r.Id)
		if c.ok && r.Address != signer {
			note(c)
		}
		if c.ok && !stopLoss {
			m.lpAllCur = append(m.lpAllCur, c)
		}
		// mirror of msg_server_close_positions.go
		position, err := k.GetPosition(cc, r.GetAccountAddress(), r.Id)
		if err != nil {
			return
		}
		pool, found := k.GetPool(cc, position.AmmPoolId)
		if !found {
			return
		}
		ammPool, err := k.GetAmmPool(cc, position.AmmPoolId)
		if err != nil {
			return
		}
		if stopLoss {
			_, _, _ = k.CheckAndCloseAtStopLoss(cc, &position, pool, ammPool)
		} else {
			_, _, _, _ = k.CheckAndLiquidateUnhealthyPosition(cc, &position, pool, ammPool)
		}
		if h := k.GetHooks(); h != nil {
			if ap, found := app.AmmKeeper.GetPool(cc, position.AmmPoolId); found {
				_ = h.AfterLeverageLpPositionClose(cc, position.GetOwnerAddress(), ap)
			}
		}
	}
	for _, r := range x.Liquidate {
		step(r, false)
	}
	for _, r := range x.StopLoss {
		step(r, true)
	}
	var out []lpCond
	for _, key := range order {
		c := *byKey[key]
		c.clear = true // evaluated at the exact moment: no margin needed
		out = append(out, c)
	}
	return out
}

func (m *MonC10) replayPerp(ctx sdk.Context, x *perpetualtypes.MsgClosePositions, signer string) []perpCond {
	app := m.sim.N0.App
	k := app.PerpetualKeeper
	cc, _ := ctx.CacheContext()
	byKey := map[string]*perpCond{}
	var order []string
	note := func(c perpCond) {
		key := fmt.Sprintf("%s/%d", c.mtp.Address, c.mtp.Id)
		if prev, ok := byKey[key]; ok {
			if c.allowed {
				prev.allowed = true
			}
			if c.custody.LT(prev.custody) {
				prev.custody = c.custody
			}
			return
		}
		cp := c
		byKey[key] = &cp
		order = append(order, key)
	}
	step := func(r perpetualtypes.PositionRequest, kind int) {
		defer func() { _ = recover() }()
		c := m.evalPerp(cc, r.Address, r.Id)
		if c.ok && r.Address != signer {
			note(c)
		}
		// mirror of msg_server_close_positions.go
		owner, err := sdk.AccAddressFromBech32(r.Address)
		if err != nil {
			return
		}
		position, err := k.GetMTP(cc, owner, r.Id)
		if err != nil {
			return
		}
		pool, found := k.GetPool(cc, position.AmmPoolId)
		if !found {
			return
		}
		switch kind {
		case 0:
			ammPool, err := k.GetAmmPool(cc, position.AmmPoolId)
			if err != nil {
				return
			}
			_ = k.CheckAndLiquidateUnhealthyPosition(cc, &position, pool, ammPool, DenomUSDC)
		case 1:
			_ = k.CheckAndCloseAtStopLoss(cc, &position, pool, DenomUSDC)
		default:
			_ = k.CheckAndCloseAtTakeProfit(cc, &position, pool, DenomUSDC)
		}
	}
	for _, r := range x.Liquidate {
		step(r, 0)
	}
	for _, r := range x.StopLoss {
		step(r, 1)
	}
	for _, r := range x.TakeProfit {
		step(r, 2)
	}
	var out []perpCond
	for _, key := range order {
		c := *byKey[key]
		c.clear = true
		out = append(out, c)
	}
	return out
}

func (m *MonC10) PostTx(ctx sdk.Context, t *ExecTx) {
	s := m.sim
	app := s.N0.App
	step := txStep(t)
	lps := m.lpPre[t.Index]
	// an owner's wallet is only comparable when none of its named positions may legitimately be closed
	ownerMayBePaid := map[string]bool{}
	for _, c := range lps {
		if c.allowed || !c.clear {
			ownerMayBePaid[c.pos.Address] = true
		}
	}
	for _, c := range m.perpPre[t.Index] {
		if c.allowed || !c.clear {
			ownerMayBePaid[c.mtp.Address] = true
		}
	}
	for i, c := range lps {
		s.Stats.Probe("force_close_request_checked")
		// exact when the message names a single position; with several, earlier closes of the
		// same message move pool prices, so only clearly-not-closable positions are asserted
		if c.allowed || (len(lps) > 1 && !c.clear) {
			if c.allowed {
				s.Stats.Probe("force_close_request_on_closable_position")
			}
			continue
		}
		_ = i
		addr := sdk.MustAccAddressFromBech32(c.pos.Address)
		post, err := app.LeveragelpKeeper.GetPosition(ctx, addr, c.pos.Id)
		what := ""
		if err != nil {
			what = "the position no longer exists"
		} else if !post.LeveragedLpAmount.Equal(c.pos.LeveragedLpAmount) {
			what = fmt.Sprintf("its LP amount changed %s -> %s", c.pos.LeveragedLpAmount, post.LeveragedLpAmount)
		} else if !post.Collateral.Equal(c.pos.Collateral) {
			what = fmt.Sprintf("its collateral changed %s -> %s", c.pos.Collateral, post.Collateral)
		} else if b := app.StablestakeKeeper.GetDebt(ctx, c.pos.GetPositionAddress()).Borrowed; !b.Equal(c.borrowed) {
			what = fmt.Sprintf("its debt principal changed %s -> %s", c.borrowed, b)
		} else if w := app.BankKeeper.GetAllBalances(ctx, addr); !w.Equal(c.wallet) && t.Spec.Signer != c.pos.Address && !ownerMayBePaid[c.pos.Address] {
			what = fmt.Sprintf("its owner's wallet changed %s -> %s", c.wallet, w)
		}
		if what != "" {
			s.Violate("C10", "levlp_healthy_position_altered", step, "leveraged-LP position %d of %s named by %s: health %s > safety factor %s and LP price %s above stop-loss %s in the pre-state, but %s", c.pos.Id, shortAddr(c.pos.Address), shortAddr(t.Spec.Signer), c.health, c.safety, c.lpPrice, c.pos.StopLossPrice, what)
		}
		s.Stats.Probe("force_close_request_on_healthy_position")
	}
	perps := m.perpPre[t.Index]
	for _, c := range perps {
		s.Stats.Probe("force_close_request_checked")
		if c.allowed || (len(perps) > 1 && !c.clear) {
			if c.allowed {
				s.Stats.Probe("force_close_request_on_closable_position")
			}
			continue
		}
		addr := sdk.MustAccAddressFromBech32(c.mtp.Address)
		post, err := app.PerpetualKeeper.GetMTP(ctx, addr, c.mtp.Id)
		what := ""
		if err != nil {
			what = "the position no longer exists"
		} else if !post.Liabilities.Equal(c.mtp.Liabilities) {
			what = fmt.Sprintf("its liabilities changed %s -> %s", c.mtp.Liabilities, post.Liabilities)
		} else if !post.Collateral.Equal(c.mtp.Collateral) {
			what = fmt.Sprintf("its collateral changed %s -> %s", c.mtp.Collateral, post.Collateral)
		} else if post.Custody.LT(c.custody) {
			what = fmt.Sprintf("its custody fell to %s, below the %s left after settling accrued interest and funding", post.Custody, c.custody)
		} else if w := app.BankKeeper.GetAllBalances(ctx, addr); !w.Equal(c.wallet) && t.Spec.Signer != c.mtp.Address && !ownerMayBePaid[c.mtp.Address] {
			what = fmt.Sprintf("its owner's wallet changed %s -> %s", c.wallet, w)
		}
		if what != "" {
			s.Violate("C10", "perp_healthy_position_altered", step, "perpetual position %d of %s named by %s: health %s > safety factor %s, price %s, stop-loss %s, take-profit %s in the pre-state, but %s", c.mtp.Id, shortAddr(c.mtp.Address), shortAddr(t.Spec.Signer), c.health, c.safety, c.price, c.mtp.StopLossPrice, c.mtp.TakeProfitPrice, what)
		}
		s.Stats.Probe("force_close_request_on_healthy_position")
	}
	// successful opens leave the position healthy
	for _, msg := range flattenMsgs(t.Spec.Msgs) {
		switch x := msg.(type) {
		case *leveragelptypes.MsgOpen:
			addr := sdk.MustAccAddressFromBech32(x.Creator)
			for _, p := range app.LeveragelpKeeper.GetAllPositions(ctx) {
				if p.Address != x.Creator || p.AmmPoolId != x.AmmPoolId {
					continue
				}
				if before, ok := m.openLP[t.Index][p.Id]; ok && before == p.LeveragedLpAmount.String()+"/"+p.Collateral.String()+"/"+p.Liabilities.String() {
					continue // an older position this open did not touch
				}
				cc, _ := ctx.CacheContext()
				h, err := app.LeveragelpKeeper.GetPositionHealth(cc, p)
				safety := app.LeveragelpKeeper.GetParams(cc).SafetyFactor
				if err == nil && h.LTE(safety) {
					s.Violate("C10", "levlp_open_unhealthy", step, "open by %s succeeded but position %d has health %s <= safety factor %s", shortAddr(addr.String()), p.Id, h, safety)
				}
				s.Stats.Probe("open_health_checked")
			}
		case *perpetualtypes.MsgOpen:
			for _, mtp := range app.PerpetualKeeper.GetAllMTPs(ctx) {
				if mtp.Address != x.Creator || mtp.AmmPoolId != x.PoolId || mtp.Position != x.Position {
					continue
				}
				if before, ok := m.openPerp[t.Index][mtp.Id]; ok && before == mtp.Custody.String()+"/"+mtp.Collateral.String()+"/"+mtp.Liabilities.String() {
					continue // an older position this open did not touch
				}
				cc, _ := ctx.CacheContext()
				ammPool, err := app.PerpetualKeeper.GetAmmPool(cc, mtp.AmmPoolId)
				if err != nil {
					continue
				}
				// health as a liquidation request in this very block would see it: with the borrow
				// interest accrued up to now (a no-op when the handler has just accrued it)
				mtp := mtp
				func() {
					defer func() { _ = recover() }()
					app.PerpetualKeeper.UpdateMTPBorrowInterestUnpaidLiability(cc, &mtp)
				}()
				h, err := app.PerpetualKeeper.GetMTPHealth(cc, mtp, ammPool, DenomUSDC)
				safety := app.PerpetualKeeper.GetParams(cc).SafetyFactor
				if err == nil && h.LTE(safety) {
					s.Violate("C10", "perp_open_unhealthy", step, "open by %s succeeded but position %d (%s, custody %s%s, liabilities %s%s, collateral %s%s) has health %s <= safety factor %s in the post-state (health recorded by the handler: %s)", shortAddr(x.Creator), mtp.Id, mtp.Position, mtp.Custody, mtp.CustodyAsset, mtp.Liabilities, mtp.LiabilitiesAsset, mtp.Collateral, mtp.CollateralAsset, h, safety, mtp.MtpHealth)
				}
				s.Stats.Probe("open_health_checked")
			}
		}
	}
}

// BeforeBlock: state of the previous block + header of the new block = what the
// begin-block sweep will see.
// BeforeBlock mirrors what the chain will do up to and including the leveraged-LP sweep on
// a discarded branch of (committed state + new header): the begin blockers of the modules
// that run before leveragelp (interest rates, epochs, ...), then the sweep's own loop with
// the chain's functions and freshly read pools. Each position of the page is evaluated at
// the moment its turn comes - an earlier close of the same pool in the same sweep
// legitimately moves the exit value of the later ones - and positions outside the page
// against the state the sweep leaves behind.
func (m *MonC10) BeforeBlock(s *Sim, ctx sdk.Context) {
	m.sweepPre = m.sweepPre[:0]
	m.sweepConds = nil
	m.sweepFor = ctx.BlockHeight()
	app := s.N0.App
	mctx, _ := ctx.CacheContext()
	mctx = mctx.WithEventManager(sdk.NewEventManager())
	mm := app.ModuleManager()
	broken := false
	for _, name := range mm.OrderBeginBlockers {
		if name == leveragelptypes.ModuleName {
			break
		}
		bb, ok := mm.Modules[name].(appmodule.HasBeginBlocker)
		if !ok {
			continue
		}
		func() {
			defer func() {
				if r := recover(); r != nil {
					broken = true
				}
			}()
			if err := bb.BeginBlock(mctx); err != nil {
				broken = true
			}
		}()
		if broken {
			// the real block will fail the same way (C18's business); no sweep to judge
			s.Stats.Probe("c10_sweep_mirror_unavailable")
			m.sweepFor = -1
			return
		}
	}
	k := app.LeveragelpKeeper
	inPage := map[string]bool{}
	func() {
		defer func() {
			if r := recover(); r != nil {
				broken = true
			}
		}()
		params := k.GetParams(mctx)
		if k.GetEpochPosition(mctx, k.GetEpochLength(mctx)) != 0 || !params.FallbackEnabled {
			return
		}
		offset, _ := k.GetOffset(mctx)
		positions, _, err := k.GetPositions(mctx, &query.PageRequest{Limit: uint64(params.NumberPerBlock), CountTotal: true, Offset: offset})
		if err != nil {
			return
		}
		s.Stats.Probe("c10_sweep_mirrored")
		for _, position := range positions {
			inPage[fmt.Sprintf("%s/%d", position.Address, position.Id)] = true
			if c := m.evalLP(mctx, position.Address, position.Id); c.ok {
				m.sweepPre = append(m.sweepPre, c)
			}
			pool, found := k.GetPool(mctx, position.AmmPoolId)
			if !found {
				continue
			}
			ammPool, err := k.GetAmmPool(mctx, pool.AmmPoolId)
			if err != nil {
				continue
			}
			isHealthy, closeAttempted, _, err := k.CheckAndLiquidateUnhealthyPosition(mctx, position, pool, ammPool)
			if err == nil {
				s.Stats.Probe("c10_sweep_mirror_closed_a_position")
				continue
			}
			if isHealthy && !closeAttempted {
				_, _, _ = k.CheckAndCloseAtStopLoss(mctx, position, pool, ammPool)
			}
		}
	}()
	if broken {
		s.Stats.Probe("c10_sweep_mirror_unavailable")
		m.sweepFor = -1
		m.sweepPre = m.sweepPre[:0]
		return
	}
	m.sweepConds = append([]lpCond(nil), m.sweepPre...)
	for _, p := range k.GetAllPositions(mctx) {
		if inPage[fmt.Sprintf("%s/%d", p.Address, p.Id)] {
			continue
		}
		if c := m.evalLP(mctx, p.Address, p.Id); c.ok {
			m.sweepPre = append(m.sweepPre, c)
		}
	}
}

func (m *MonC10) checkSweep(ctx sdk.Context, step string) {
	if m.sweepFor != ctx.BlockHeight() || len(m.sweepPre) == 0 {
		return
	}
	s := m.sim
	app := s.N0.App
	pre := m.sweepPre
	m.sweepPre = nil
	for _, c := range pre {
		if c.allowed || !c.clear {
			continue
		}
		addr := sdk.MustAccAddressFromBech32(c.pos.Address)
		post, err := app.LeveragelpKeeper.GetPosition(ctx, addr, c.pos.Id)
		what := ""
		if err != nil {
			what = "the position no longer exists"
		} else if !post.LeveragedLpAmount.Equal(c.pos.LeveragedLpAmount) {
			what = fmt.Sprintf("its LP amount changed %s -> %s", c.pos.LeveragedLpAmount, post.LeveragedLpAmount)
		} else if !post.Collateral.Equal(c.pos.Collateral) {
			what = fmt.Sprintf("its collateral changed %s -> %s", c.pos.Collateral, post.Collateral)
		}
		if what != "" {
			s.Violate("C10", "sweep_altered_healthy_position", step, "begin-block sweep at height %d: leveraged-LP position %d of %s had health %s > safety factor %s and LP price %s above stop-loss %s, but %s", ctx.BlockHeight(), c.pos.Id, shortAddr(c.pos.Address), c.health, c.safety, c.lpPrice, c.pos.StopLossPrice, what)
		}
		s.Stats.Probe("sweep_healthy_position_checked")
	}
}

func (m *MonC10) AfterBlock(s *Sim, eb *ExecBlock) {
	m.checkSweep(s.Ctx(), "BeginBlock(sweep)")
	m.lpPre = map[int][]lpCond{}
	m.lpAll = map[int][]lpCond{}
	m.perpPre = map[int][]perpCond{}
	m.openLP = map[int]map[uint64]string{}
	m.openPerp = map[int]map[uint64]string{}
}
