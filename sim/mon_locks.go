package main

import (
	"fmt"
	"strconv"
	"strings"

	sdkmath "cosmossdk.io/math"
	sdk "github.com/cosmos/cosmos-sdk/types"
)

// ---------------------------------------------------------------------------
// C12 (lock-ups) — "committed tokens under a time lock cannot be withdrawn by their owner
// before the lock expires (only a liquidation may override it)".
//
// Reference model, evaluated around every step (begin block incl. the sweep, each successful
// transaction): for every (account, denom) the amount still under lock at the block's time
// is read from the pre-state; the step may add commitments and locks but must leave at
// least that amount committed. The only exemption is the liquidation of an unhealthy
// leveraged-LP position (the account is the position's own address, the step is a
// close-positions message naming it under "liquidate" or the begin-block sweep, and the
// position's health at the moment its turn came - taken from C10's mirror of the handler
// loop - was at or below the safety factor). A stop-loss close, an owner's close and a
// "liquidation" of a healthy position get no exemption.
//
// Plus a state invariant at every block boundary: the locks still active never exceed the
// committed amount they lock.

type lockKey struct{ acct, denom string }

type MonC12Locks struct {
	sim      *Sim
	c10      *MonC10
	pre      map[lockKey]sdkmath.Int // amount still locked in the pre-state of the current step
	preFor   string
	sawTx    bool
	blockPre map[lockKey]sdkmath.Int
	// The monitor's own lock ledger. Reading the locks back from the chain's records alone would
	// make the chain the judge of what is locked (a lock the chain forgot to record would not exist
	// for the monitor either). The rule the ledger follows is the documented one: LP shares of an
	// oracle pool are locked for one hour from the time of the block that mints them to an account
	// (join, pool creation, leveraged-LP open on the position's address); every other commitment is
	// lock-free. Amounts come from the observed growth of the account's committed shares in a step.
	model        map[lockKey][]modelLock
	preShares    map[lockKey]sdkmath.Int // committed pool shares per account before the current step
	blockShares  map[lockKey]sdkmath.Int
	preOracle    map[uint64]bool
	blockOracle  map[uint64]bool
}

type modelLock struct {
	amount sdkmath.Int
	unlock int64
}

const oraclePoolShareLock = 3600 // seconds; the documented lock on freshly minted oracle-pool shares

func (m *MonC12Locks) shares(ctx sdk.Context) (map[lockKey]sdkmath.Int, map[uint64]bool) {
	out := map[lockKey]sdkmath.Int{}
	for _, c := range m.sim.N0.App.CommitmentKeeper.GetAllCommitments(ctx) {
		for _, ct := range c.CommittedTokens {
			if strings.HasPrefix(ct.Denom, "amm/pool/") && ct.Amount.IsPositive() {
				out[lockKey{c.Creator, ct.Denom}] = ct.Amount
			}
		}
	}
	or := map[uint64]bool{}
	for _, p := range m.sim.N0.App.AmmKeeper.GetAllPool(ctx) {
		or[p.PoolId] = p.PoolParams.UseOracle
	}
	return out, or
}

// learn: after a step, every growth of an account's committed oracle-pool shares becomes a lock in
// the monitor's ledger.
func (m *MonC12Locks) learn(ctx sdk.Context, before map[lockKey]sdkmath.Int, oracleBefore map[uint64]bool, exempt map[string]bool) {
	if m.model == nil {
		m.model = map[lockKey][]modelLock{}
	}
	now := ctx.BlockTime().Unix()
	after, oracleAfter := m.shares(ctx)
	for k, a := range after {
		b, ok := before[k]
		if !ok {
			b = sdkmath.ZeroInt()
		}
		if !a.GT(b) {
			continue
		}
		id, err := strconv.ParseUint(strings.TrimPrefix(k.denom, "amm/pool/"), 10, 64)
		if err != nil {
			continue
		}
		was, existed := oracleBefore[id]
		if (existed && !was) || (!existed && !oracleAfter[id]) || was != oracleAfter[id] && existed {
			continue // not an oracle pool (or its kind was switched in this very step: not judged)
		}
		m.model[k] = append(m.model[k], modelLock{a.Sub(b), now + oraclePoolShareLock})
		m.sim.Stats.Probe("lock_ledger_entry_added")
	}
	for acct := range exempt {
		for k := range m.model {
			if k.acct == acct {
				delete(m.model, k)
			}
		}
	}
}

func (m *MonC12Locks) modelLocked(now int64) map[lockKey]sdkmath.Int {
	out := map[lockKey]sdkmath.Int{}
	for k, ls := range m.model {
		sum := sdkmath.ZeroInt()
		live := ls[:0]
		for _, l := range ls {
			if l.unlock > now {
				sum = sum.Add(l.amount)
				live = append(live, l)
			}
		}
		if len(live) == 0 {
			delete(m.model, k)
		} else {
			m.model[k] = live
		}
		if sum.IsPositive() {
			out[k] = sum
		}
	}
	return out
}

func newMonC12Locks(s *Sim, c10 *MonC10) *MonC12Locks { return &MonC12Locks{sim: s, c10: c10} }

func (m *MonC12Locks) Name() string { return "C12locks" }
func (m *MonC12Locks) AtEnd(s *Sim)  {}

func (m *MonC12Locks) locked(ctx sdk.Context) map[lockKey]sdkmath.Int {
	now := uint64(ctx.BlockTime().Unix())
	out := map[lockKey]sdkmath.Int{}
	for _, c := range m.sim.N0.App.CommitmentKeeper.GetAllCommitments(ctx) {
		for _, ct := range c.CommittedTokens {
			sum := sdkmath.ZeroInt()
			for _, l := range ct.Lockups {
				if l.UnlockTimestamp > now {
					sum = sum.Add(l.Amount)
				}
			}
			if sum.IsPositive() {
				out[lockKey{c.Creator, ct.Denom}] = sum
			}
		}
	}
	// the larger of what the chain recorded and what the monitor's own ledger says
	for k, v := range m.modelLocked(ctx.BlockTime().Unix()) {
		if cur, ok := out[k]; !ok || v.GT(cur) {
			if ok {
				m.sim.Stats.Probe("lock_ledger_exceeds_chain_records")
			} else {
				m.sim.Stats.Probe("lock_ledger_has_lock_the_chain_does_not_record")
			}
			out[k] = v
		}
	}
	return out
}

func (m *MonC12Locks) committed(ctx sdk.Context, k lockKey) sdkmath.Int {
	addr, err := sdk.AccAddressFromBech32(k.acct)
	if err != nil {
		return sdkmath.ZeroInt()
	}
	c := m.sim.N0.App.CommitmentKeeper.GetCommitments(ctx, addr)
	return c.GetCommittedAmountForDenom(k.denom)
}

// exempt: position addresses whose liquidation in this step was justified.
func exemptFrom(conds []lpCond) map[string]bool {
	out := map[string]bool{}
	for _, c := range conds {
		if c.unhealthy {
			out[c.pos.GetPositionAddress().String()] = true
		}
	}
	return out
}

func (m *MonC12Locks) check(ctx sdk.Context, pre map[lockKey]sdkmath.Int, step string, exempt map[string]bool) {
	s := m.sim
	for k, locked := range pre {
		after := m.committed(ctx, k)
		s.Stats.Inc("checks/C12locks", 1)
		if after.GTE(locked) {
			continue
		}
		if exempt[k.acct] {
			s.Stats.Probe("lock_overridden_by_justified_liquidation")
			continue
		}
		s.Violate("C12", "locked_tokens_withdrawn", step, "account %s held %s %s under a time lock that had not expired at this block's time, but only %s remain committed after the step (no liquidation of an unhealthy position justifies it)", shortAddr(k.acct), locked, k.denom, after)
	}
	if len(pre) > 0 {
		s.Stats.Probe("locked_commitment_checked")
	}
}

func (m *MonC12Locks) BeforeBlock(s *Sim, ctx sdk.Context) {
	m.blockPre = m.locked(ctx)
	m.blockShares, m.blockOracle = m.shares(ctx)
	m.sawTx = false
}

func (m *MonC12Locks) PreTx(ctx sdk.Context, t *ExecTx) {
	if !m.sawTx {
		m.sawTx = true
		ex := exemptFrom(m.c10.sweepConds)
		m.check(ctx, m.blockPre, "BeginBlock(sweep)", ex)
		m.learn(ctx, m.blockShares, m.blockOracle, ex)
	}
	m.pre = m.locked(ctx)
	m.preShares, m.preOracle = m.shares(ctx)
}

func (m *MonC12Locks) PostTx(ctx sdk.Context, t *ExecTx) {
	ex := exemptFrom(m.c10.lpAll[t.Index])
	m.check(ctx, m.pre, txStep(t), ex)
	m.learn(ctx, m.preShares, m.preOracle, ex)
	m.pre = nil
}

func (m *MonC12Locks) AfterBlock(s *Sim, eb *ExecBlock) {
	ctx := s.Ctx()
	if !m.sawTx {
		ex := exemptFrom(m.c10.sweepConds)
		m.check(ctx, m.blockPre, "BeginBlock(sweep)", ex)
		m.learn(ctx, m.blockShares, m.blockOracle, ex)
	}
	// state invariant: active locks never exceed what they lock
	for k, locked := range m.locked(ctx) {
		if c := m.committed(ctx, k); locked.GT(c) {
			s.Violate("C12", "locks_exceed_committed", culpritOfBlock(eb, nil), "account %s: locks still active on %s sum to %s but only %s is committed", shortAddr(k.acct), k.denom, locked, c)
		}
	}
}

var _ = fmt.Sprintf
