package main

import (
	"fmt"

	sdkmath "cosmossdk.io/math"
	sdk "github.com/cosmos/cosmos-sdk/types"
)

// ---------------------------------------------------------------------------
// C12 (lock-ups) — "committed tokens under a time lock cannot be withdrawn by their owner
// before the lock expires (only a liquidation may override it)".
//
// Reference model, evaluated around every step (begin block incl. the sweep, each successful
// transaction): for every (account, denom) the amount still under lock at the block's time
// is read from the pre-state; the step may add commitments and locks but must leave at
// least that amount committed. The only exemption is the liquidation of an unhealthy
// leveraged-LP position (the account is the position's own address, the step is a
// close-positions message naming it under "liquidate" or the begin-block sweep, and the
// position's health at the moment its turn came - taken from C10's mirror of the handler
// loop - was at or below the safety factor). A stop-loss close, an owner's close and a
// "liquidation" of a healthy position get no exemption.
//
// Plus a state invariant at every block boundary: the locks still active never exceed the
// committed amount they lock.

type lockKey struct{ acct, denom string }

type MonC12Locks struct {
	sim      *Sim
	c10      *MonC10
	pre      map[lockKey]sdkmath.Int // amount still locked in the pre-state of the current step
	preFor   string
	sawTx    bool
	blockPre map[lockKey]sdkmath.Int
}

func newMonC12Locks(s *Sim, c10 *MonC10) *MonC12Locks { return &MonC12Locks{sim: s, c10: c10} }

func (m *MonC12Locks) Name() string { return "C12locks" }
func (m *MonC12Locks) AtEnd(s *Sim)  {}

func (m *MonC12Locks) locked(ctx sdk.Context) map[lockKey]sdkmath.Int {
	now := uint64(ctx.BlockTime().Unix())
	out := map[lockKey]sdkmath.Int{}
	for _, c := range m.sim.N0.App.CommitmentKeeper.GetAllCommitments(ctx) {
		for _, ct := range c.CommittedTokens {
			sum := sdkmath.ZeroInt()
			for _, l := range ct.Lockups {
				if l.UnlockTimestamp > now {
					sum = sum.Add(l.Amount)
				}
			}
			if sum.IsPositive() {
				out[lockKey{c.Creator, ct.Denom}] = sum
			}
		}
	}
	return out
}

func (m *MonC12Locks) committed(ctx sdk.Context, k lockKey) sdkmath.Int {
	addr, err := sdk.AccAddressFromBech32(k.acct)
	if err != nil {
		return sdkmath.ZeroInt()
	}
	c := m.sim.N0.App.CommitmentKeeper.GetCommitments(ctx, addr)
	return c.GetCommittedAmountForDenom(k.denom)
}

// exempt: position addresses whose liquidation in this step was justified.
func exemptFrom(conds []lpCond) map[string]bool {
	out := map[string]bool{}
	for _, c := range conds {
		if c.unhealthy {
			out[c.pos.GetPositionAddress().String()] = true
		}
	}
	return out
}

func (m *MonC12Locks) check(ctx sdk.Context, pre map[lockKey]sdkmath.Int, step string, exempt map[string]bool) {
	s := m.sim
	for k, locked := range pre {
		after := m.committed(ctx, k)
		s.Stats.Inc("checks/C12locks", 1)
		if after.GTE(locked) {
			continue
		}
		if exempt[k.acct] {
			s.Stats.Probe("lock_overridden_by_justified_liquidation")
			continue
		}
		s.Violate("C12", "locked_tokens_withdrawn", step, "account %s held %s %s under a time lock that had not expired at this block's time, but only %s remain committed after the step (no liquidation of an unhealthy position justifies it)", shortAddr(k.acct), locked, k.denom, after)
	}
	if len(pre) > 0 {
		s.Stats.Probe("locked_commitment_checked")
	}
}

func (m *MonC12Locks) BeforeBlock(s *Sim, ctx sdk.Context) {
	m.blockPre = m.locked(ctx)
	m.sawTx = false
}

func (m *MonC12Locks) PreTx(ctx sdk.Context, t *ExecTx) {
	if !m.sawTx {
		m.sawTx = true
		m.check(ctx, m.blockPre, "BeginBlock(sweep)", exemptFrom(m.c10.sweepConds))
	}
	m.pre = m.locked(ctx)
}

func (m *MonC12Locks) PostTx(ctx sdk.Context, t *ExecTx) {
	m.check(ctx, m.pre, txStep(t), exemptFrom(m.c10.lpAll[t.Index]))
	m.pre = nil
}

func (m *MonC12Locks) AfterBlock(s *Sim, eb *ExecBlock) {
	ctx := s.Ctx()
	if !m.sawTx {
		m.check(ctx, m.blockPre, "BeginBlock(sweep)", exemptFrom(m.c10.sweepConds))
	}
	// state invariant: active locks never exceed what they lock
	for k, locked := range m.locked(ctx) {
		if c := m.committed(ctx, k); locked.GT(c) {
			s.Violate("C12", "locks_exceed_committed", culpritOfBlock(eb, nil), "account %s: locks still active on %s sum to %s but only %s is committed", shortAddr(k.acct), k.denom, locked, c)
		}
	}
}

var _ = fmt.Sprintf
