package main

import (
	"fmt"
	"sort"
	"strings"

	sdkmath "cosmossdk.io/math"
	sdk "github.com/cosmos/cosmos-sdk/types"
	govv1 "github.com/cosmos/cosmos-sdk/x/gov/types/v1"

	oracletypes "github.com/elys-network/elys/x/oracle/types"
)

// ---------------------------------------------------------------------------
// C16 — oracle serves the newest live price of the asked asset; only feeders write
//
// Reference model: map[(asset,source)] -> map[timestamp] -> entry, plus the set
// of registered feeders. Updated from successful transactions (and executed
// governance proposals), expired by the rule at end of block, compared with the
// real lookups after every block.

type opair struct{ asset, source string }

type oentry struct {
	price  sdkmath.LegacyDec
	ts     uint64
	height uint64
}

type MonC16 struct {
	sim     *Sim
	prices  map[opair]map[uint64]oentry
	feeders map[string]bool // address -> active
	concat  map[string]map[opair]bool
	assets  map[string]bool // every asset name ever seen (fed or registered)
	init    bool
	execd   map[uint64]bool // gov proposals already applied to the model
}

func newMonC16(s *Sim) *MonC16 {
	return &MonC16{sim: s, prices: map[opair]map[uint64]oentry{}, feeders: map[string]bool{}, concat: map[string]map[opair]bool{}, assets: map[string]bool{}, execd: map[uint64]bool{}}
}

func (m *MonC16) Name() string { return "C16" }
func (m *MonC16) AtEnd(s *Sim)  {}

func (m *MonC16) set(asset, source string, e oentry) {
	p := opair{asset, source}
	if m.prices[p] == nil {
		m.prices[p] = map[uint64]oentry{}
	}
	m.prices[p][e.ts] = e
	c := asset + source
	if m.concat[c] == nil {
		m.concat[c] = map[opair]bool{}
	}
	m.concat[c][p] = true
	m.assets[asset] = true
}

func (m *MonC16) bootstrap(s *Sim) {
	// genesis content (the harness built it, so the model knows it)
	for _, as := range Universe {
		if as.Price0 == "" {
			continue
		}
		m.set(as.Display, oracletypes.ELYS, oentry{price: sdkmath.LegacyMustNewDecFromStr(as.Price0), ts: uint64(s.Cfg.Genesis.GenesisTime.Unix()), height: 0})
	}
	m.feeders[s.W.GovAddr.String()] = true
	for _, f := range s.W.Feeders {
		m.feeders[f.Addr.String()] = true
	}
	m.init = true
}

func (m *MonC16) newest(asset, source string) (oentry, bool) {
	es := m.prices[opair{asset, source}]
	var best oentry
	found := false
	for _, e := range es {
		if !found || e.ts > best.ts {
			best, found = e, true
		}
	}
	return best, found
}

// collided reports whether a lookup for asset can be affected by the store-key
// collision of known finding F10: keys are <asset><source> without delimiter, so
// two different (asset, source) pairs with the same concatenation share one key.
func (m *MonC16) collided(asset string) bool {
	for p := range m.prices {
		if p.asset != asset {
			continue
		}
		if len(m.concat[p.asset+p.source]) > 1 {
			return true
		}
	}
	// also pairs of this asset that were fed before and whose entry was overwritten
	for c, owners := range m.concat {
		if len(owners) < 2 {
			continue
		}
		for p := range owners {
			if p.asset == asset {
				_ = c
				return true
			}
		}
	}
	return false
}

func (m *MonC16) applyMsg(s *Sim, msg sdk.Msg, now uint64, height uint64, viaGov bool) {
	switch x := msg.(type) {
	case *oracletypes.MsgFeedPrice:
		m.set(x.FeedPrice.Asset, x.FeedPrice.Source, oentry{price: x.FeedPrice.Price, ts: now, height: height})
	case *oracletypes.MsgFeedMultiplePrices:
		for _, fp := range x.FeedPrices {
			m.set(fp.Asset, fp.Source, oentry{price: fp.Price, ts: now, height: height})
		}
	case *oracletypes.MsgSetPriceFeeder:
		m.feeders[x.Feeder] = x.IsActive
	case *oracletypes.MsgDeletePriceFeeder:
		delete(m.feeders, x.Feeder)
	case *oracletypes.MsgAddPriceFeeders:
		if viaGov {
			for _, f := range x.Feeders {
				m.feeders[f] = true
			}
		}
	case *oracletypes.MsgRemovePriceFeeders:
		if viaGov {
			for _, f := range x.Feeders {
				delete(m.feeders, f)
			}
		}
	}
}

func feederOf(msg sdk.Msg) (string, bool) {
	switch x := msg.(type) {
	case *oracletypes.MsgFeedPrice:
		return x.Provider, true
	case *oracletypes.MsgFeedMultiplePrices:
		return x.Creator, true
	}
	return "", false
}

func (m *MonC16) AfterBlock(s *Sim, eb *ExecBlock) {
	if !m.init {
		m.bootstrap(s)
	}
	app := s.N0.App
	ctx := s.Ctx()
	now := uint64(eb.Time.Unix())
	h := uint64(eb.Height)
	// 1. transactions, in order
	for _, t := range eb.Txs {
		for _, msg := range flattenMsgs(t.Spec.Msgs) {
			if f, isFeed := feederOf(msg); isFeed {
				active := m.feeders[f]
				s.Stats.Probe("feed_tx_seen")
				if t.OK() && !active {
					s.Violate("C16", "feed_by_non_feeder", txStep(t), "price feed by %s succeeded although the account is not a registered, active price feeder (model feeder set: %v)", f, m.feeders)
				}
				if !t.OK() && !active {
					s.Stats.Probe("feed_by_non_feeder_refused")
				}
			}
			if t.OK() {
				m.applyMsg(s, msg, now, h, false)
			}
		}
	}
	// 2. governance proposals executed in this block's end blocker
	for _, ev := range eb.Res.Resp.Events {
		if ev.Type != "active_proposal" || attr(ev, "proposal_result") != "proposal_passed" {
			continue
		}
		var id uint64
		fmt.Sscan(attr(ev, "proposal_id"), &id)
		if m.execd[id] {
			continue
		}
		m.execd[id] = true
		prop, err := app.GovKeeper.Proposals.Get(ctx, id)
		if err != nil {
			continue
		}
		msgs, err := prop.GetMsgs()
		if err != nil {
			continue
		}
		for _, msg := range msgs {
			m.applyMsg(s, msg, now, h, true)
		}
	}
	// 3. expiry at the end of the block (rule as stated: a price dies when its age exceeds
	//    the expiry time, or its age in blocks exceeds the life time)
	params := app.OracleKeeper.GetParams(ctx)
	for p, es := range m.prices {
		for ts, e := range es {
			if e.ts+params.PriceExpiryTime < now || e.height+params.LifeTimeInBlocks < h {
				delete(es, ts)
			}
		}
		if len(es) == 0 {
			delete(m.prices, p)
		}
	}
	// 4. feeder registry must equal the model
	real := map[string]bool{}
	for _, f := range app.OracleKeeper.GetAllPriceFeeder(ctx) {
		real[f.Feeder] = f.IsActive
	}
	if fmt.Sprint(sortedFeeders(real)) != fmt.Sprint(sortedFeeders(m.feeders)) {
		s.Violate("C16", "feeder_registry", culpritOfBlock(eb, nil), "feeder registry %v differs from the registry derived from authorised transactions %v", sortedFeeders(real), sortedFeeders(m.feeders))
		// resynchronise so that one deviation is reported once
		m.feeders = real
	}
	// 5. lookups
	assets := make([]string, 0, len(m.assets)+4)
	for a := range m.assets {
		assets = append(assets, a)
	}
	assets = append(assets, "NEVERFED", "ATO", "ATOMX")
	sort.Strings(assets)
	for _, a := range assets {
		m.checkLookup(s, eb, a)
	}
	// by denom
	denoms := []string{"unknowndenom"}
	for _, as := range Universe {
		denoms = append(denoms, as.Denom)
	}
	infos := map[string]oracletypes.AssetInfo{}
	for _, ai := range app.OracleKeeper.GetAllAssetInfo(ctx) {
		infos[ai.Denom] = ai
		denoms = append(denoms, ai.Denom)
	}
	sort.Strings(denoms)
	for _, d := range denoms {
		got := app.OracleKeeper.GetAssetPriceFromDenom(ctx, d)
		ai, ok := infos[d]
		if !ok {
			if !got.IsZero() {
				s.Violate("C16", "denom_without_info", culpritOfBlock(eb, nil), "denom %s has no asset info but the lookup returned %s", d, got)
			}
			continue
		}
		exp, acceptable, found := m.expected(ai.Display)
		if !found {
			if !got.IsZero() && !m.collided(ai.Display) {
				s.Violate("C16", "denom_stale_or_foreign", culpritOfBlock(eb, nil), "denom %s (%s) has no live price in the model but the lookup returned %s", d, ai.Display, got)
			}
			continue
		}
		okv := false
		for _, e := range append(acceptable, exp) {
			if got.Equal(e.price.Quo(pow10Dec(ai.Decimal))) {
				okv = true
			}
		}
		if !okv && !m.collided(ai.Display) {
			s.Violate("C16", "denom_price_mismatch", culpritOfBlock(eb, nil), "denom %s (%s): lookup returned %s, model expects %s/10^%d", d, ai.Display, got, exp.price, ai.Decimal)
		}
	}
	s.Stats.Inc("checks/C16", float64(len(assets)+len(denoms)))
}

func pow10Dec(n uint64) sdkmath.LegacyDec {
	v := sdkmath.LegacyOneDec()
	for i := uint64(0); i < n; i++ {
		v = v.MulInt64(10)
	}
	return v
}

func sortedFeeders(m map[string]bool) []string {
	var out []string
	for k, v := range m {
		out = append(out, fmt.Sprintf("%s=%v", k[len(k)-6:], v))
	}
	sort.Strings(out)
	return out
}

// expected returns the model's answer for a lookup of asset: the single expected
// entry for tiers 1 and 2, or the set of acceptable entries for tier 3 ("any").
func (m *MonC16) expected(asset string) (oentry, []oentry, bool) {
	if e, ok := m.newest(asset, oracletypes.ELYS); ok {
		return e, nil, true
	}
	if e, ok := m.newest(asset, oracletypes.BAND); ok {
		return e, nil, true
	}
	var acc []oentry
	for p := range m.prices {
		if p.asset == asset {
			if e, ok := m.newest(p.asset, p.source); ok {
				acc = append(acc, e)
			}
		}
	}
	if len(acc) == 0 {
		return oentry{}, nil, false
	}
	return acc[0], acc, true
}

func (m *MonC16) checkLookup(s *Sim, eb *ExecBlock, asset string) {
	ctx := s.Ctx()
	got, found := s.N0.App.OracleKeeper.GetAssetPrice(ctx, asset)
	exp, acceptable, ok := m.expected(asset)
	s.Stats.Probe("oracle_lookup_compared")
	sub := ""
	detail := ""
	switch {
	case !ok && found:
		sub, detail = "stale_or_foreign_price", fmt.Sprintf("lookup of %q returned {asset=%s source=%s price=%s ts=%d height=%d} but no live price of that asset exists (now=%d, height=%d)", asset, got.Asset, got.Source, got.Price, got.Timestamp, got.BlockHeight, eb.Time.Unix(), eb.Height)
	case ok && !found:
		sub, detail = "live_price_not_served", fmt.Sprintf("lookup of %q found nothing but the newest live price is %s (ts=%d)", asset, exp.price, exp.ts)
	case ok && found:
		match := false
		for _, e := range append(acceptable, exp) {
			if got.Price.Equal(e.price) && got.Timestamp == e.ts {
				match = true
			}
		}
		if got.Asset != asset {
			sub, detail = "foreign_price", fmt.Sprintf("lookup of %q returned a price fed for asset %q (source %q, price %s)", asset, got.Asset, got.Source, got.Price)
		} else if !match {
			sub, detail = "not_newest_live_price", fmt.Sprintf("lookup of %q returned {source=%s price=%s ts=%d}, model expects {price=%s ts=%d} (tier-3 alternatives: %d)", asset, got.Source, got.Price, got.Timestamp, exp.price, exp.ts, len(acceptable))
		}
	}
	if sub == "" {
		return
	}
	if m.collided(asset) {
		sub += "_key_collision"
		s.Stats.Probe("oracle_key_collision_seen")
	}
	s.Violate("C16", sub, culpritOfBlock(eb, isOracleTx), "%s", detail)
}

var _ = govv1.StatusPassed

func isOracleTx(t *ExecTx) bool {
	for _, m := range flattenMsgs(t.Spec.Msgs) {
		if strings.Contains(sdk.MsgTypeURL(m), ".oracle.") {
			return true
		}
	}
	return false
}
