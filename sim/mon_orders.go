package main

import (
	"strings"
	"fmt"
	"sort"

	sdkmath "cosmossdk.io/math"
	sdk "github.com/cosmos/cosmos-sdk/types"

	tradeshieldtypes "github.com/elys-network/elys/x/tradeshield/types"
)

// ---------------------------------------------------------------------------
// C20 — escrowed order funds are safe and owner-controlled
//
// Reference model per tradeshield transaction (exact pre/post state):
//  * conservation: for every owner whose orders the transaction touches,
//    wallet + sum of escrow balances of its pending orders is unchanged, unless
//    one of its orders was legitimately executed in this transaction;
//  * an execution request leaves order record, escrow and the owner's perpetual
//    positions untouched unless the trigger condition held in the pre-state
//    (evaluated with the chain's own price functions on the pre-state);
//  * after a failed attempt (order still pending) nothing exists on the owner's
//    behalf: no new/changed perpetual position, wallet + escrow conserved;
//  * cancel returns the full escrow and removes the order;
//  * update / cancel by anyone but the owner never succeeds.

type orderSnap struct {
	spot map[uint64]tradeshieldtypes.SpotOrder
	perp map[uint64]tradeshieldtypes.PerpetualOrder
}

type ownerSnap struct {
	wallet sdk.Coins
	escrow sdk.Coins
	mtps   string
}

type c20Pre struct {
	orders   orderSnap
	owners   map[string]ownerSnap
	spotTrig map[uint64]string // "yes" | "no" | "unknown"
	perpTrig map[uint64]string
	escrow   map[string]sdk.Coins // spendable balance at the escrow address of every order named in an execution request
}

type MonC20 struct {
	sim *Sim
	pre map[int]*c20Pre
}

func newMonC20(s *Sim) *MonC20 { return &MonC20{sim: s, pre: map[int]*c20Pre{}} }

func (m *MonC20) Name() string { return "C20" }
func (m *MonC20) AtEnd(s *Sim)  {}

func isTradeshieldTx(t *ExecTx) bool { return txHasAnyContains(t, ".tradeshield.") }

func txHasAnyContains(t *ExecTx, sub string) bool {
	for _, m := range flattenMsgs(t.Spec.Msgs) {
		if containsStr(sdk.MsgTypeURL(m), sub) {
			return true
		}
	}
	return false
}

func containsStr(s, sub string) bool {
	for i := 0; i+len(sub) <= len(s); i++ {
		if s[i:i+len(sub)] == sub {
			return true
		}
	}
	return false
}

func (m *MonC20) orders(ctx sdk.Context) orderSnap {
	k := m.sim.N0.App.TradeshieldKeeper
	o := orderSnap{spot: map[uint64]tradeshieldtypes.SpotOrder{}, perp: map[uint64]tradeshieldtypes.PerpetualOrder{}}
	for _, x := range k.GetAllPendingSpotOrder(ctx) {
		o.spot[x.OrderId] = x
	}
	for _, x := range k.GetAllPendingPerpetualOrder(ctx) {
		o.perp[x.OrderId] = x
	}
	return o
}

func (m *MonC20) owner(ctx sdk.Context, o orderSnap, owner string) ownerSnap {
	app := m.sim.N0.App
	addr, err := sdk.AccAddressFromBech32(owner)
	if err != nil {
		return ownerSnap{}
	}
	os := ownerSnap{wallet: app.BankKeeper.GetAllBalances(ctx, addr)}
	var ids []uint64
	for id, x := range o.spot {
		if x.OwnerAddress == owner {
			ids = append(ids, id)
		}
	}
	sort.Slice(ids, func(i, j int) bool { return ids[i] < ids[j] })
	for _, id := range ids {
		os.escrow = os.escrow.Add(app.BankKeeper.SpendableCoins(ctx, o.spot[id].GetOrderAddress())...)
	}
	ids = ids[:0]
	for id, x := range o.perp {
		if x.OwnerAddress == owner {
			ids = append(ids, id)
		}
	}
	sort.Slice(ids, func(i, j int) bool { return ids[i] < ids[j] })
	for _, id := range ids {
		os.escrow = os.escrow.Add(app.BankKeeper.SpendableCoins(ctx, o.perp[id].GetOrderAddress())...)
	}
	for _, mtp := range app.PerpetualKeeper.GetAllMTPs(ctx) {
		if mtp.Address == owner {
			os.mtps += fmt.Sprintf("%d:%s/%s/%s;", mtp.Id, mtp.Custody, mtp.Liabilities, mtp.Collateral)
		}
	}
	return os
}

func (m *MonC20) spotTrigger(ctx sdk.Context, o tradeshieldtypes.SpotOrder) (res string) {
	// the chain's price function can panic on degenerate pools (Pow of a zero base); inside a
	// transaction baseapp turns that into a failed tx, here it means "cannot tell"
	defer func() {
		if r := recover(); r != nil {
			res = "unknown"
		}
	}()
	k := m.sim.N0.App.TradeshieldKeeper
	if o.OrderType == tradeshieldtypes.SpotOrderType_MARKETBUY {
		return "yes"
	}
	p, err := k.GetAssetPriceFromDenomInToDenomOut(ctx, o.OrderPrice.BaseDenom, o.OrderPrice.QuoteDenom)
	if err != nil || p.IsZero() {
		return "unknown"
	}
	switch o.OrderType {
	case tradeshieldtypes.SpotOrderType_STOPLOSS, tradeshieldtypes.SpotOrderType_LIMITBUY:
		if p.LTE(o.OrderPrice.Rate) {
			return "yes"
		}
	case tradeshieldtypes.SpotOrderType_LIMITSELL:
		if p.GTE(o.OrderPrice.Rate) {
			return "yes"
		}
	}
	return "no"
}

func (m *MonC20) perpTrigger(ctx sdk.Context, o tradeshieldtypes.PerpetualOrder) (res string) {
	defer func() {
		if r := recover(); r != nil {
			res = "unknown"
		}
	}()
	p, err := m.sim.N0.App.PerpetualKeeper.GetAssetPrice(ctx, o.TradingAsset)
	if err != nil || p.IsZero() {
		return "unknown"
	}
	switch o.Position {
	case tradeshieldtypes.PerpetualPosition_LONG:
		if p.LTE(o.TriggerPrice.Rate) {
			return "yes"
		}
	case tradeshieldtypes.PerpetualPosition_SHORT:
		if p.GTE(o.TriggerPrice.Rate) {
			return "yes"
		}
	}
	return "no"
}

func (m *MonC20) involvedOwners(t *ExecTx, o orderSnap) []string {
	set := map[string]bool{}
	for _, msg := range flattenMsgs(t.Spec.Msgs) {
		switch x := msg.(type) {
		case *tradeshieldtypes.MsgCreateSpotOrder:
			set[x.OwnerAddress] = true
		case *tradeshieldtypes.MsgCreatePerpetualOpenOrder:
			set[x.OwnerAddress] = true
		case *tradeshieldtypes.MsgUpdateSpotOrder:
			set[x.OwnerAddress] = true
			if ord, ok := o.spot[x.OrderId]; ok {
				set[ord.OwnerAddress] = true
			}
		case *tradeshieldtypes.MsgCancelSpotOrder:
			set[x.OwnerAddress] = true
			if ord, ok := o.spot[x.OrderId]; ok {
				set[ord.OwnerAddress] = true
			}
		case *tradeshieldtypes.MsgCancelSpotOrders:
			set[x.Creator] = true
			for _, id := range x.SpotOrderIds {
				if ord, ok := o.spot[id]; ok {
					set[ord.OwnerAddress] = true
				}
			}
		case *tradeshieldtypes.MsgUpdatePerpetualOrder:
			set[x.OwnerAddress] = true
			if ord, ok := o.perp[x.OrderId]; ok {
				set[ord.OwnerAddress] = true
			}
		case *tradeshieldtypes.MsgCancelPerpetualOrder:
			set[x.OwnerAddress] = true
			if ord, ok := o.perp[x.OrderId]; ok {
				set[ord.OwnerAddress] = true
			}
		case *tradeshieldtypes.MsgCancelPerpetualOrders:
			set[x.OwnerAddress] = true
			for _, id := range x.OrderIds {
				if ord, ok := o.perp[id]; ok {
					set[ord.OwnerAddress] = true
				}
			}
		case *tradeshieldtypes.MsgExecuteOrders:
			for _, id := range x.SpotOrderIds {
				if ord, ok := o.spot[id]; ok {
					set[ord.OwnerAddress] = true
				}
			}
			for _, id := range x.PerpetualOrderIds {
				if ord, ok := o.perp[id]; ok {
					set[ord.OwnerAddress] = true
				}
			}
		}
	}
	var out []string
	for k := range set {
		out = append(out, k)
	}
	sort.Strings(out)
	return out
}

func (m *MonC20) PreTx(ctx sdk.Context, t *ExecTx) {
	if !isTradeshieldTx(t) {
		return
	}
	p := &c20Pre{orders: m.orders(ctx), owners: map[string]ownerSnap{}, spotTrig: map[uint64]string{}, perpTrig: map[uint64]string{}, escrow: map[string]sdk.Coins{}}
	for _, ow := range m.involvedOwners(t, p.orders) {
		p.owners[ow] = m.owner(ctx, p.orders, ow)
	}
	for _, msg := range flattenMsgs(t.Spec.Msgs) {
		if x, ok := msg.(*tradeshieldtypes.MsgExecuteOrders); ok {
			for _, id := range x.SpotOrderIds {
				if ord, ok := p.orders.spot[id]; ok {
					p.spotTrig[id] = m.spotTrigger(ctx, ord)
					p.escrow[ord.GetOrderAddress().String()] = m.sim.N0.App.BankKeeper.SpendableCoins(ctx, ord.GetOrderAddress())
				}
			}
			for _, id := range x.PerpetualOrderIds {
				if ord, ok := p.orders.perp[id]; ok {
					p.perpTrig[id] = m.perpTrigger(ctx, ord)
					p.escrow[ord.GetOrderAddress().String()] = m.sim.N0.App.BankKeeper.SpendableCoins(ctx, ord.GetOrderAddress())
				}
			}
		}
	}
	m.pre[t.Index] = p
}

func coinsDelta(a, b sdk.Coins) string {
	d, neg := b.SafeSub(a...)
	if !neg {
		return "+" + d.String()
	}
	return fmt.Sprintf("%s -> %s", a, b)
}

func (m *MonC20) PostTx(ctx sdk.Context, t *ExecTx) {
	pre := m.pre[t.Index]
	if pre == nil {
		return
	}
	s := m.sim
	step := txStep(t)
	post := m.orders(ctx)
	s.Stats.Probe("order_tx_checked")
	// orders of each owner that were legitimately executed (removed while their trigger held)
	executedFor := map[string]bool{}
	for _, msg := range flattenMsgs(t.Spec.Msgs) {
		switch x := msg.(type) {
		case *tradeshieldtypes.MsgExecuteOrders:
			names := map[uint64]int{}
			for _, id := range x.SpotOrderIds {
				names[id]++
				ord, existed := pre.orders.spot[id]
				if !existed {
					continue
				}
				_, still := post.spot[id]
				trig := pre.spotTrig[id]
				escrowPre := s.N0.App.BankKeeper.GetAllBalances(s.ctxAtPre(t), ord.GetOrderAddress())
				_ = escrowPre
				if !still {
					executedFor[ord.OwnerAddress] = true
					m.checkEscrowSpent(ctx, pre, ord.GetOrderAddress(), ord.OrderAmount, fmt.Sprintf("spot order %d", id), step)
				}
				if trig == "no" && names[id] == 1 {
					// must be untouched
					now, ok := post.spot[id]
					if !ok {
						s.Violate("C20", "executed_without_trigger", step, "spot order %d (%s, rate %s) of %s was executed by %s although the market price did not satisfy its trigger in the pre-state", id, ord.OrderType, ord.OrderPrice.Rate, shortAddr(ord.OwnerAddress), shortAddr(t.Spec.Signer))
					} else if now.String() != ord.String() {
						s.Violate("C20", "order_changed_without_trigger", step, "spot order %d changed by an execution request although its trigger was not met: %s -> %s", id, ord.String(), now.String())
					}
					s.Stats.Probe("execute_request_trigger_unmet")
				}
				if trig == "yes" {
					s.Stats.Probe("execute_request_trigger_met")
					if still {
						s.Stats.Probe("order_execution_failed_after_trigger_met")
					}
				}
			}
			for _, id := range x.PerpetualOrderIds {
				ord, existed := pre.orders.perp[id]
				if !existed {
					continue
				}
				_, still := post.perp[id]
				trig := pre.perpTrig[id]
				if !still {
					executedFor[ord.OwnerAddress] = true
					m.checkEscrowSpent(ctx, pre, ord.GetOrderAddress(), ord.Collateral, fmt.Sprintf("perpetual order %d", id), step)
				}
				if trig == "no" {
					now, ok := post.perp[id]
					if !ok {
						s.Violate("C20", "executed_without_trigger", step, "perpetual order %d (%s trigger %s) of %s was executed by %s although the market price did not satisfy its trigger in the pre-state", id, ord.Position, ord.TriggerPrice.Rate, shortAddr(ord.OwnerAddress), shortAddr(t.Spec.Signer))
					} else if now.String() != ord.String() {
						s.Violate("C20", "order_changed_without_trigger", step, "perpetual order %d changed by an execution request although its trigger was not met", id)
					}
					s.Stats.Probe("execute_request_trigger_unmet")
				}
				if trig == "yes" {
					s.Stats.Probe("execute_request_trigger_met")
					if still {
						s.Stats.Probe("order_execution_failed_after_trigger_met")
					}
				}
			}
		case *tradeshieldtypes.MsgCancelSpotOrder:
			m.checkCancelSpot(ctx, t, pre, post, x.OrderId, x.OwnerAddress, step)
		case *tradeshieldtypes.MsgCancelSpotOrders:
			for _, id := range x.SpotOrderIds {
				m.checkCancelSpot(ctx, t, pre, post, id, x.Creator, step)
			}
		case *tradeshieldtypes.MsgCancelPerpetualOrder:
			m.checkCancelPerp(ctx, t, pre, post, x.OrderId, x.OwnerAddress, step)
		case *tradeshieldtypes.MsgCancelPerpetualOrders:
			for _, id := range x.OrderIds {
				m.checkCancelPerp(ctx, t, pre, post, id, x.OwnerAddress, step)
			}
		case *tradeshieldtypes.MsgUpdateSpotOrder:
			if ord, ok := pre.orders.spot[x.OrderId]; ok && ord.OwnerAddress != t.Spec.Signer {
				if now, ok2 := post.spot[x.OrderId]; !ok2 || now.String() != ord.String() {
					s.Violate("C20", "update_by_non_owner", step, "spot order %d of %s was changed by %s", x.OrderId, shortAddr(ord.OwnerAddress), shortAddr(t.Spec.Signer))
				}
			}
		case *tradeshieldtypes.MsgUpdatePerpetualOrder:
			if ord, ok := pre.orders.perp[x.OrderId]; ok && ord.OwnerAddress != t.Spec.Signer {
				if now, ok2 := post.perp[x.OrderId]; !ok2 || now.String() != ord.String() {
					s.Violate("C20", "update_by_non_owner", step, "perpetual order %d of %s was changed by %s", x.OrderId, shortAddr(ord.OwnerAddress), shortAddr(t.Spec.Signer))
				}
			}
		}
	}
	// conservation per owner
	for ow, before := range pre.owners {
		after := m.owner(ctx, post, ow)
		if executedFor[ow] {
			continue // funds legitimately moved into a swap request / a perpetual position
		}
		// a market-buy or newly created order by the owner itself only moves wallet -> escrow
		sumB := before.wallet.Add(before.escrow...)
		sumA := after.wallet.Add(after.escrow...)
		if !sumA.Equal(sumB) {
			s.Violate("C20", "wallet_plus_escrow_not_conserved", step, "owner %s: wallet+escrow %s before, %s after (wallet %s, escrow %s) although none of its orders was executed in this transaction", shortAddr(ow), sumB, sumA, coinsDelta(before.wallet, after.wallet), coinsDelta(before.escrow, after.escrow))
		}
		if after.mtps != before.mtps && ow != t.Spec.Signer {
			s.Violate("C20", "position_changed_without_execution", step, "owner %s: perpetual positions changed (%s -> %s) by %s although none of its orders was executed", shortAddr(ow), before.mtps, after.mtps, shortAddr(t.Spec.Signer))
		}
		s.Stats.Probe("order_owner_conservation_checked")
	}
}

// ctxAtPre is a placeholder kept for readability: escrow pre-balances are part of ownerSnap.
func (s *Sim) ctxAtPre(t *ExecTx) sdk.Context { return s.Ctx() }

func (m *MonC20) checkCancelSpot(ctx sdk.Context, t *ExecTx, pre *c20Pre, post orderSnap, id uint64, claimedOwner, step string) {
	s := m.sim
	ord, ok := pre.orders.spot[id]
	if !ok {
		return
	}
	if ord.OwnerAddress != t.Spec.Signer {
		if _, still := post.spot[id]; !still {
			s.Violate("C20", "cancel_by_non_owner", step, "spot order %d of %s was cancelled by %s", id, shortAddr(ord.OwnerAddress), shortAddr(t.Spec.Signer))
		}
		return
	}
	if _, still := post.spot[id]; still {
		s.Violate("C20", "cancel_left_order", step, "spot order %d still pending after a successful cancel by its owner", id)
	}
	if bal := s.N0.App.BankKeeper.SpendableCoins(ctx, ord.GetOrderAddress()); !bal.IsZero() { // spendable: a locked unit parked there by a stranger is not escrow
		s.Violate("C20", "cancel_left_escrow", step, "spot order %d: %s left in escrow after cancel", id, bal)
	}
	s.Stats.Probe("order_cancel_checked")
	_ = sdkmath.ZeroInt
}

// checkEscrowSpent: an order that an execution request removed has had its escrow spent on the owner's
// behalf (or returned); nothing of the order's own funds may stay at the escrow address, which no
// message can reach once the order record is gone. Whatever else sat there before (a stranger's
// transfer) is not the order's.
func (m *MonC20) checkEscrowSpent(ctx sdk.Context, pre *c20Pre, escrow sdk.AccAddress, funds sdk.Coin, what, step string) {
	s := m.sim
	bank := s.N0.App.BankKeeper
	before := pre.escrow[escrow.String()].AmountOf(funds.Denom) // exact pre-state of this transaction
	after := bank.SpendableCoins(ctx, escrow).AmountOf(funds.Denom)
	foreign := before.Sub(funds.Amount)
	if foreign.IsNegative() {
		foreign = sdkmath.ZeroInt()
	}
	s.Stats.Probe("executed_order_escrow_checked")
	if after.GT(foreign) {
		s.Violate("C20", "executed_order_left_escrow", step, "%s was removed by an execution request but %s%s of its %s escrow is still at its escrow address (held %s before), out of everyone's reach", what, after.Sub(foreign), funds.Denom, funds, before)
	}
}

func (m *MonC20) checkCancelPerp(ctx sdk.Context, t *ExecTx, pre *c20Pre, post orderSnap, id uint64, claimedOwner, step string) {
	s := m.sim
	ord, ok := pre.orders.perp[id]
	if !ok {
		return
	}
	if ord.OwnerAddress != t.Spec.Signer {
		if _, still := post.perp[id]; !still {
			s.Violate("C20", "cancel_by_non_owner", step, "perpetual order %d of %s was cancelled by %s", id, shortAddr(ord.OwnerAddress), shortAddr(t.Spec.Signer))
		}
		return
	}
	if _, still := post.perp[id]; still {
		s.Violate("C20", "cancel_left_order", step, "perpetual order %d still pending after a successful cancel by its owner", id)
	}
	if bal := s.N0.App.BankKeeper.SpendableCoins(ctx, ord.GetOrderAddress()); !bal.IsZero() { // spendable: a locked unit parked there by a stranger is not escrow
		s.Violate("C20", "cancel_left_escrow", step, "perpetual order %d: %s left in escrow after cancel", id, bal)
	}
	s.Stats.Probe("order_cancel_checked")
}

func (m *MonC20) AfterBlock(s *Sim, eb *ExecBlock) {
	// "owner-controlled": the owner's own cancel of an order that was pending when the transaction
	// started must go through (running out of the gas the sender chose excepted)
	for _, t := range eb.Txs {
		pre := m.pre[t.Index]
		if pre == nil || t.OK() || strings.Contains(t.Res.Log, "out of gas") {
			continue
		}
		msgs := flattenMsgs(t.Spec.Msgs)
		if len(msgs) != 1 {
			continue
		}
		switch x := msgs[0].(type) {
		case *tradeshieldtypes.MsgCancelSpotOrder:
			if o, ok := pre.orders.spot[x.OrderId]; ok && o.OwnerAddress == x.OwnerAddress && x.OwnerAddress == t.Spec.Signer {
				s.Violate("C20", "owner_cannot_cancel", "tradeshield.MsgCancelSpotOrder", "owner %s cannot cancel its pending spot order %d (escrow %s): %s", shortAddr(x.OwnerAddress), x.OrderId, s.N0.App.BankKeeper.GetAllBalances(s.Ctx(), o.GetOrderAddress()), truncate(firstLine(t.Res.Log), 200))
			}
		case *tradeshieldtypes.MsgCancelPerpetualOrder:
			if o, ok := pre.orders.perp[x.OrderId]; ok && o.OwnerAddress == x.OwnerAddress && x.OwnerAddress == t.Spec.Signer {
				s.Violate("C20", "owner_cannot_cancel", "tradeshield.MsgCancelPerpetualOrder", "owner %s cannot cancel its pending perpetual order %d: %s", shortAddr(x.OwnerAddress), x.OrderId, truncate(firstLine(t.Res.Log), 200))
			}
		}
	}
	m.pre = map[int]*c20Pre{}
	n := len(s.N0.App.TradeshieldKeeper.GetAllPendingSpotOrder(s.Ctx())) + len(s.N0.App.TradeshieldKeeper.GetAllPendingPerpetualOrder(s.Ctx()))
	if n > 0 {
		s.Stats.Probe("blocks_with_pending_orders")
	}
}
