package main

import (
	"fmt"
	"sort"
	"strings"

	sdkmath "cosmossdk.io/math"
	sdk "github.com/cosmos/cosmos-sdk/types"
	authtypes "github.com/cosmos/cosmos-sdk/x/auth/types"
	banktypes "github.com/cosmos/cosmos-sdk/x/bank/types"

	ammtypes "github.com/elys-network/elys/x/amm/types"
	commitmenttypes "github.com/elys-network/elys/x/commitment/types"
)

// Snap is a per-block snapshot of frequently used state, shared by monitors.
type Snap struct {
	Height       int64
	Pools        []ammtypes.Pool
	Commitments  []*commitmenttypes.Commitments
	CommittedSum map[string]sdkmath.Int // denom -> sum over accounts of committed
	ClaimedSum   map[string]sdkmath.Int
}

func (s *Sim) Snap() *Snap {
	if s.snap != nil && s.snap.Height == s.Height {
		return s.snap
	}
	ctx := s.Ctx()
	sn := &Snap{Height: s.Height, CommittedSum: map[string]sdkmath.Int{}, ClaimedSum: map[string]sdkmath.Int{}}
	sn.Pools = s.N0.App.AmmKeeper.GetAllPool(ctx)
	sn.Commitments = s.N0.App.CommitmentKeeper.GetAllCommitments(ctx)
	for _, c := range sn.Commitments {
		for _, ct := range c.CommittedTokens {
			cur, ok := sn.CommittedSum[ct.Denom]
			if !ok {
				cur = sdkmath.ZeroInt()
			}
			sn.CommittedSum[ct.Denom] = cur.Add(ct.Amount)
		}
		for _, cl := range c.Claimed {
			cur, ok := sn.ClaimedSum[cl.Denom]
			if !ok {
				cur = sdkmath.ZeroInt()
			}
			sn.ClaimedSum[cl.Denom] = cur.Add(cl.Amount)
		}
	}
	s.snap = sn
	return sn
}

func zeroIfNil(m map[string]sdkmath.Int, k string) sdkmath.Int {
	if v, ok := m[k]; ok {
		return v
	}
	return sdkmath.ZeroInt()
}

// culpritOfBlock names the most likely culprits of a block-boundary violation:
// the distinct successful message types of the block plus the blockers.
func culpritOfBlock(eb *ExecBlock, filter func(t *ExecTx) bool) string {
	set := map[string]bool{}
	for _, t := range eb.Txs {
		if !t.OK() || (filter != nil && !filter(t)) {
			continue
		}
		for _, m := range t.Spec.Msgs {
			set[shortType(sdk.MsgTypeURL(m))] = true
		}
	}
	var ks []string
	for k := range set {
		ks = append(ks, k)
	}
	sort.Strings(ks)
	if len(ks) == 0 {
		return "blockers"
	}
	if len(ks) > 4 {
		ks = append(ks[:4], "…")
	}
	return strings.Join(ks, "+")
}

// ---------------------------------------------------------------------------
// C01 — pool reserves equal real holdings; DenomLiquidity equals sum of reserves

type MonC01 struct {
	donated map[string]sdkmath.Int // pool address|denom -> third-party sends
}

func (m *MonC01) Name() string { return "C01" }
func (m *MonC01) AtEnd(s *Sim)  {}

func (m *MonC01) AfterBlock(s *Sim, eb *ExecBlock) {
	sn := s.Snap()
	poolAddr := map[string]bool{}
	for _, p := range sn.Pools {
		poolAddr[p.Address] = true
	}
	// third-party plain sends to pool addresses (the only slack the statement allows)
	for _, t := range eb.Txs {
		if !t.OK() {
			continue
		}
		for _, msg := range t.Spec.Msgs {
			if ms, ok := msg.(*banktypes.MsgSend); ok && poolAddr[ms.ToAddress] {
				for _, c := range ms.Amount {
					k := ms.ToAddress + "|" + c.Denom
					m.donated[k] = zeroIfNil(m.donated, k).Add(c.Amount)
				}
			}
		}
	}
	sum := map[string]sdkmath.Int{}
	for _, p := range sn.Pools {
		for _, a := range p.PoolAssets {
			d := a.Token.Denom
			book := a.Token.Amount
			bank := s.Ledger.Balance(p.Address, d)
			don := zeroIfNil(m.donated, p.Address+"|"+d)
			if book.GT(bank) {
				s.Violate("C01", "book_gt_bank", culpritOfBlock(eb, nil), "pool %d %s: book reserve %s > bank balance %s (short by %s)", p.PoolId, d, book, bank, book.Sub(bank))
			} else if bank.Sub(book).GT(don) {
				s.Violate("C01", "bank_gt_book", culpritOfBlock(eb, nil), "pool %d %s: bank balance %s exceeds book reserve %s by %s, third-party sends explain only %s", p.PoolId, d, bank, book, bank.Sub(book), don)
			}
			sum[d] = zeroIfNil(sum, d).Add(book)
		}
	}
	dl := map[string]sdkmath.Int{}
	for _, l := range s.N0.App.AmmKeeper.GetAllDenomLiquidity(s.Ctx()) {
		dl[l.Denom] = l.Liquidity
	}
	denoms := map[string]bool{}
	for d := range sum {
		denoms[d] = true
	}
	for d := range dl {
		denoms[d] = true
	}
	for d := range denoms {
		if !zeroIfNil(sum, d).Equal(zeroIfNil(dl, d)) {
			s.Violate("C01", "denom_liquidity", culpritOfBlock(eb, nil), "denom %s: chain-wide liquidity total %s != sum of pool reserves %s", d, zeroIfNil(dl, d), zeroIfNil(sum, d))
		}
	}
	s.Stats.Inc("checks/C01", float64(len(sn.Pools)))
}

// ---------------------------------------------------------------------------
// C02 — TotalShares = share supply = Σ committed = custody balance

type MonC02 struct{}

func (m *MonC02) Name() string { return "C02" }
func (m *MonC02) AtEnd(s *Sim)  {}

func (m *MonC02) AfterBlock(s *Sim, eb *ExecBlock) {
	sn := s.Snap()
	custody := authtypes.NewModuleAddress(commitmenttypes.ModuleName).String()
	for _, p := range sn.Pools {
		d := ammtypes.GetPoolShareDenom(p.PoolId)
		total := p.TotalShares.Amount
		supply := s.Ledger.Supply(d)
		committed := zeroIfNil(sn.CommittedSum, d)
		held := s.Ledger.Balance(custody, d)
		if !total.Equal(supply) || !supply.Equal(committed) || !committed.Equal(held) {
			s.Violate("C02", "share_accounting", culpritOfBlock(eb, nil), "pool %d: TotalShares=%s supply=%s sum(committed)=%s custody balance=%s", p.PoolId, total, supply, committed, held)
		}
	}
	// shares are minted only by create/join and burned only by exit (incl. leveraged-LP joins/exits)
	for i := range s.Ledger.Moves {
		mv := &s.Ledger.Moves[i]
		if mv.Kind != "mint" && mv.Kind != "burn" {
			continue
		}
		for _, c := range mv.Coins {
			if !strings.HasPrefix(c.Denom, "amm/pool/") {
				continue
			}
			ok := false
			if mv.Phase == "tx" {
				ok = txHasShareOp(eb.Txs[mv.Tx], mv.Kind)
			} else {
				// blockers: leveragelp sweep liquidations burn (begin), nothing mints
				ok = mv.Kind == "burn" && mv.Phase == "begin"
			}
			if !ok {
				s.Violate("C02", "share_"+mv.Kind+"_outside_join_exit", fmt.Sprintf("%s/%d", mv.Phase, mv.Tx), "%s of %s in %s (tx %d) which contains no join/create resp. exit", mv.Kind, c, mv.Phase, mv.Tx)
			}
		}
	}
	s.Stats.Inc("checks/C02", float64(len(sn.Pools)))
}

func txHasShareOp(t *ExecTx, kind string) bool {
	for _, m := range flattenMsgs(t.Spec.Msgs) {
		u := sdk.MsgTypeURL(m)
		switch kind {
		case "mint":
			if strings.HasSuffix(u, "amm.MsgCreatePool") || strings.HasSuffix(u, "amm.MsgJoinPool") || strings.HasSuffix(u, "leveragelp.MsgOpen") {
				return true
			}
		case "burn":
			if strings.HasSuffix(u, "amm.MsgExitPool") || strings.HasSuffix(u, "leveragelp.MsgClose") || strings.HasSuffix(u, "leveragelp.MsgClosePositions") {
				return true
			}
		}
	}
	return false
}
