package main

import (
	"fmt"
	"sort"
	"strings"

	sdkmath "cosmossdk.io/math"
	sdk "github.com/cosmos/cosmos-sdk/types"
	authtypes "github.com/cosmos/cosmos-sdk/x/auth/types"
	banktypes "github.com/cosmos/cosmos-sdk/x/bank/types"

	ammtypes "github.com/elys-network/elys/x/amm/types"
	commitmenttypes "github.com/elys-network/elys/x/commitment/types"
)

// Snap is a per-block snapshot of frequently used state, shared by monitors.
type Snap struct {
	Height       int64
	Pools        []ammtypes.Pool
	Commitments  []*commitmenttypes.Commitments
	CommittedSum map[string]sdkmath.Int // denom -> sum over accounts of committed
	ClaimedSum   map[string]sdkmath.Int
}

func (s *Sim) Snap() *Snap {
	if s.snap != nil && s.snap.Height == s.Height {
		return s.snap
	}
	ctx := s.Ctx()
	sn := &Snap{Height: s.Height, CommittedSum: map[string]sdkmath.Int{}, ClaimedSum: map[string]sdkmath.Int{}}
	sn.Pools = s.N0.App.AmmKeeper.GetAllPool(ctx)
	sn.Commitments = s.N0.App.CommitmentKeeper.GetAllCommitments(ctx)
	for _, c := range sn.Commitments {
		for _, ct := range c.CommittedTokens {
			cur, ok := sn.CommittedSum[ct.Denom]
			if !ok {
				cur = sdkmath.ZeroInt()
			}
			sn.CommittedSum[ct.Denom] = cur.Add(ct.Amount)
		}
		for _, cl := range c.Claimed {
			cur, ok := sn.ClaimedSum[cl.Denom]
			if !ok {
				cur = sdkmath.ZeroInt()
			}
			sn.ClaimedSum[cl.Denom] = cur.Add(cl.Amount)
		}
	}
	s.snap = sn
	return sn
}

func zeroIfNil(m map[string]sdkmath.Int, k string) sdkmath.Int {
	if v, ok := m[k]; ok {
		return v
	}
	return sdkmath.ZeroInt()
}

// culpritOfBlock names the most likely culprits of a block-boundary violation:
// the distinct successful message types of the block plus the blockers.
func culpritOfBlock(eb *ExecBlock, filter func(t *ExecTx) bool) string {
	set := map[string]bool{}
	for _, t := range eb.Txs {
		if !t.OK() || (filter != nil && !filter(t)) {
			continue
		}
		for _, m := range t.Spec.Msgs {
			set[shortType(sdk.MsgTypeURL(m))] = true
		}
	}
	var ks []string
	for k := range set {
		ks = append(ks, k)
	}
	sort.Strings(ks)
	if len(ks) == 0 {
		return "blockers"
	}
	if len(ks) > 4 {
		ks = append(ks[:4], "…")
	}
	return strings.Join(ks, "+")
}

// ---------------------------------------------------------------------------
// C01 — pool reserves equal real holdings; DenomLiquidity equals sum of reserves

func newMonC01(s *Sim) *StepMon {
	donated := map[string]sdkmath.Int{} // pool address|denom -> plain third-party sends
	m := &StepMon{Prop: "C01", sim: s}
	m.OnTxOK = func(s *Sim, t *ExecTx) {
		// third-party plain sends to pool addresses: the only slack the statement allows
		for _, msg := range flattenMsgs(t.Spec.Msgs) {
			switch ms := msg.(type) {
			case *banktypes.MsgSend:
				for _, c := range ms.Amount {
					k := ms.ToAddress + "|" + c.Denom
					donated[k] = zeroIfNil(donated, k).Add(c.Amount)
				}
			case *banktypes.MsgMultiSend:
				for _, o := range ms.Outputs {
					for _, c := range o.Coins {
						k := o.Address + "|" + c.Denom
						donated[k] = zeroIfNil(donated, k).Add(c.Amount)
					}
				}
			}
		}
	}
	m.Eval = func(s *Sim, ctx sdk.Context) []Issue {
		var out []Issue
		app := s.N0.App
		sum := map[string]sdkmath.Int{}
		for _, p := range app.AmmKeeper.GetAllPool(ctx) {
			addr := sdk.MustAccAddressFromBech32(p.Address)
			for _, a := range p.PoolAssets {
				d := a.Token.Denom
				book := a.Token.Amount
				bank := app.BankKeeper.GetBalance(ctx, addr, d).Amount
				don := zeroIfNil(donated, p.Address+"|"+d)
				inst := fmt.Sprintf("pool %d %s", p.PoolId, d)
				if book.GT(bank) {
					out = append(out, issuef("book_gt_bank", inst, "book reserve %s > bank balance %s of the pool address (short by %s)", book, bank, book.Sub(bank)))
				} else if bank.Sub(book).GT(don) {
					out = append(out, issuef("bank_gt_book", inst, "bank balance %s exceeds book reserve %s by %s; plain third-party sends explain only %s", bank, book, bank.Sub(book), don))
				}
				sum[d] = zeroIfNil(sum, d).Add(book)
			}
		}
		dl := map[string]sdkmath.Int{}
		for _, l := range app.AmmKeeper.GetAllDenomLiquidity(ctx) {
			dl[l.Denom] = l.Liquidity
		}
		denoms := map[string]bool{}
		for d := range sum {
			denoms[d] = true
		}
		for d := range dl {
			denoms[d] = true
		}
		for d := range denoms {
			if !zeroIfNil(sum, d).Equal(zeroIfNil(dl, d)) {
				out = append(out, issuef("denom_liquidity", d, "chain-wide liquidity total %s != sum of pool reserves %s", zeroIfNil(dl, d), zeroIfNil(sum, d)))
			}
		}
		return out
	}
	return m
}

// ---------------------------------------------------------------------------
// C02 — TotalShares = share supply = Σ committed = custody balance

func newMonC02(s *Sim) *StepMon {
	m := &StepMon{Prop: "C02", sim: s}
	custody := authtypes.NewModuleAddress(commitmenttypes.ModuleName)
	m.Eval = func(s *Sim, ctx sdk.Context) []Issue {
		var out []Issue
		app := s.N0.App
		committed := map[string]sdkmath.Int{}
		app.CommitmentKeeper.IterateCommitments(ctx, func(c commitmenttypes.Commitments) bool {
			for _, ct := range c.CommittedTokens {
				if strings.HasPrefix(ct.Denom, "amm/pool/") {
					committed[ct.Denom] = zeroIfNil(committed, ct.Denom).Add(ct.Amount)
				}
			}
			return false
		})
		for _, p := range app.AmmKeeper.GetAllPool(ctx) {
			d := ammtypes.GetPoolShareDenom(p.PoolId)
			total := p.TotalShares.Amount
			supply := app.BankKeeper.GetSupply(ctx, d).Amount
			com := zeroIfNil(committed, d)
			held := app.BankKeeper.GetBalance(ctx, custody, d).Amount
			if !total.Equal(supply) || !supply.Equal(com) || !com.Equal(held) {
				out = append(out, issuef("share_accounting", fmt.Sprintf("pool %d", p.PoolId), "TotalShares=%s supply=%s sum(committed)=%s custody balance=%s", total, supply, com, held))
			}
		}
		return out
	}
	return m
}

// MonC02Ledger: shares are minted only by create/join and burned only by exit.
type MonC02Ledger struct{}

func (m *MonC02Ledger) Name() string { return "C02" }
func (m *MonC02Ledger) AtEnd(s *Sim)  {}
func (m *MonC02Ledger) AfterBlock(s *Sim, eb *ExecBlock) {
	if !s.Ledger.BlockOK {
		return
	}
	for i := range s.Ledger.Moves {
		mv := &s.Ledger.Moves[i]
		if mv.Kind != "mint" && mv.Kind != "burn" {
			continue
		}
		for _, c := range mv.Coins {
			if !strings.HasPrefix(c.Denom, "amm/pool/") {
				continue
			}
			ok := false
			if mv.Phase == "tx" {
				ok = txHasShareOp(eb.Txs[mv.Tx], mv.Kind)
			} else {
				// blockers: only the leveraged-LP sweep (begin block) may exit (burn); nothing mints
				ok = mv.Kind == "burn" && mv.Phase == "begin"
			}
			if !ok {
				s.Violate("C02", "share_"+mv.Kind+"_outside_join_exit", fmt.Sprintf("%s/%d", mv.Phase, mv.Tx), "%s of %s in %s (tx %d) which contains no join/create resp. exit", mv.Kind, c, mv.Phase, mv.Tx)
			}
		}
	}
}

func txHasShareOp(t *ExecTx, kind string) bool {
	for _, m := range flattenMsgs(t.Spec.Msgs) {
		u := sdk.MsgTypeURL(m)
		switch kind {
		case "mint":
			if strings.HasSuffix(u, "amm.MsgCreatePool") || strings.HasSuffix(u, "amm.MsgJoinPool") || strings.HasSuffix(u, "leveragelp.MsgOpen") {
				return true
			}
		case "burn":
			if strings.HasSuffix(u, "amm.MsgExitPool") || strings.HasSuffix(u, "leveragelp.MsgClose") || strings.HasSuffix(u, "leveragelp.MsgClosePositions") {
				return true
			}
		}
	}
	return false
}
