package main

import (
	"fmt"
	"os"
	"math/big"
	"sort"
	"strings"

	sdkmath "cosmossdk.io/math"
	sdk "github.com/cosmos/cosmos-sdk/types"
	authtypes "github.com/cosmos/cosmos-sdk/x/auth/types"

	ammtypes "github.com/elys-network/elys/x/amm/types"
	mastercheftypes "github.com/elys-network/elys/x/masterchef/types"
	stablestaketypes "github.com/elys-network/elys/x/stablestake/types"
)

// ---------------------------------------------------------------------------
// C13 — every credited LP reward can be paid
//
// After every block, for every bank-backed reward denom:
//   balance(masterchef module) >= sum over (pool, holder) of floor(pending)
// with pending = RewardPending + (acc * committed balance - debt)/1e18 recomputed
// in big.Rat from the stored accumulators and the commitment ledger (floor per
// entry = exactly what a claim pays). A holder's pending may grow in a block by
// at most that block's accumulator increase times its end-of-block balance
// (committing just before a distribution earns nothing from earlier blocks).
// At the end of the run (and at sampled heights) the drain test: on a discarded
// branch of the state every holder claims, in a seeded random order, and every
// claim must succeed.

type rewardKey struct {
	pool   uint64
	denom  string
	holder string
}

type MonC13 struct {
	sim      *Sim
	lastAcc  map[string]*big.Rat    // pool|denom -> accumulated reward per share (scaled by 1e18)
	lastPend map[rewardKey]*big.Rat // pending total per holder at the previous block boundary
	lastParts map[rewardKey]string
}

func newMonC13(s *Sim) *MonC13 {
	return &MonC13{sim: s, lastAcc: map[string]*big.Rat{}, lastPend: map[rewardKey]*big.Rat{}}
}

func (m *MonC13) Name() string { return "C13" }

func decRat(d sdkmath.LegacyDec) *big.Rat {
	if d.IsNil() {
		return new(big.Rat)
	}
	return new(big.Rat).SetFrac(d.BigInt(), new(big.Int).Exp(big.NewInt(10), big.NewInt(18), nil))
}

var oneShareRat = new(big.Rat).SetInt(new(big.Int).Exp(big.NewInt(10), big.NewInt(18), nil))

func shareDenomOfPool(id uint64) string {
	if id == stablestaketypes.PoolId {
		return stablestaketypes.GetShareDenom()
	}
	return ammtypes.GetPoolShareDenom(id)
}

func floorRat(r *big.Rat) *big.Int {
	q := new(big.Int).Quo(r.Num(), r.Denom())
	if r.Sign() < 0 && new(big.Int).Mul(q, r.Denom()).Cmp(r.Num()) != 0 {
		q.Sub(q, big.NewInt(1))
	}
	return q
}

type c13State struct {
	pend    map[rewardKey]*big.Rat
	parts   map[rewardKey]string // stored pending | debt | balance, for reports
	acc     map[string]*big.Rat
	bal     map[rewardKey]sdkmath.Int
	holders []string
	pools   []uint64
}

func (m *MonC13) compute(ctx sdk.Context) *c13State {
	app := m.sim.N0.App
	st := &c13State{parts: map[rewardKey]string{}, pend: map[rewardKey]*big.Rat{}, acc: map[string]*big.Rat{}, bal: map[rewardKey]sdkmath.Int{}}
	for _, pri := range app.MasterchefKeeper.GetAllPoolRewardInfos(ctx) {
		st.acc[fmt.Sprintf("%d|%s", pri.PoolId, pri.RewardDenom)] = decRat(pri.PoolAccRewardPerShare)
	}
	// committed balances by share denom
	type hb struct {
		holder string
		amt    sdkmath.Int
	}
	byDenom := map[string][]hb{}
	for _, c := range m.sim.Snap().Commitments {
		for _, ct := range c.CommittedTokens {
			if ct.Amount.IsPositive() && (strings.HasPrefix(ct.Denom, "amm/pool/") || ct.Denom == stablestaketypes.GetShareDenom()) {
				byDenom[ct.Denom] = append(byDenom[ct.Denom], hb{c.Creator, ct.Amount})
			}
		}
	}
	infos := map[rewardKey]mastercheftypes.UserRewardInfo{}
	for _, u := range app.MasterchefKeeper.GetAllUserRewardInfos(ctx) {
		infos[rewardKey{u.PoolId, u.RewardDenom, u.User}] = u
	}
	holderSet := map[string]bool{}
	for _, pi := range app.MasterchefKeeper.GetAllPoolInfos(ctx) {
		st.pools = append(st.pools, pi.PoolId)
		denoms := app.MasterchefKeeper.GetRewardDenoms(ctx, pi.PoolId)
		sd := shareDenomOfPool(pi.PoolId)
		for _, d := range denoms {
			acc := st.acc[fmt.Sprintf("%d|%s", pi.PoolId, d)]
			if acc == nil {
				acc = new(big.Rat)
			}
			seen := map[string]bool{}
			add := func(holder string, bal sdkmath.Int) {
				if seen[holder] {
					return
				}
				seen[holder] = true
				holderSet[holder] = true
				k := rewardKey{pi.PoolId, d, holder}
				info, ok := infos[k]
				p := new(big.Rat)
				debt := new(big.Rat)
				if ok {
					p = decRat(info.RewardPending)
					debt = decRat(info.RewardDebt)
				}
				accrued := new(big.Rat).Mul(acc, new(big.Rat).SetInt(bal.BigInt()))
				accrued.Sub(accrued, debt)
				accrued.Quo(accrued, oneShareRat)
				st.pend[k] = new(big.Rat).Add(p, accrued)
				st.bal[k] = bal
				st.parts[k] = fmt.Sprintf("stored_pending=%s debt=%s committed=%s acc=%s", p.FloatString(3), debt.FloatString(0), bal, acc.FloatString(6))
			}
			for _, h := range byDenom[sd] {
				add(h.holder, h.amt)
			}
			for k := range infos {
				if k.pool == pi.PoolId && k.denom == d {
					add(k.holder, sdkmath.ZeroInt())
				}
			}
		}
	}
	for h := range holderSet {
		st.holders = append(st.holders, h)
	}
	sort.Strings(st.holders)
	return st
}

func (m *MonC13) AfterBlock(s *Sim, eb *ExecBlock) {
	ctx := s.Ctx()
	app := s.N0.App
	st := m.compute(ctx)
	module := authtypes.NewModuleAddress(mastercheftypes.ModuleName)
	owed := map[string]*big.Int{}
	for k, p := range st.pend {
		if k.denom == DenomEDEN || k.denom == DenomEDENB {
			continue // not bank-backed
		}
		f := floorRat(p)
		if f.Sign() <= 0 {
			continue
		}
		if owed[k.denom] == nil {
			owed[k.denom] = new(big.Int)
		}
		owed[k.denom].Add(owed[k.denom], f)
	}
	if os.Getenv("ELYSSIM_DEBUG_C13") != "" {
		for i := range s.Ledger.Moves {
			mv := &s.Ledger.Moves[i]
			if mv.Kind == "transfer" && (mv.Addr == module.String() || mv.From == module.String()) {
				fmt.Printf("DEBUG13 h=%d %s/%d %s(%s) -> %s(%s) %s\n", eb.Height, mv.Phase, mv.Tx, shortAddr(mv.From), s.moduleName(mv.From), shortAddr(mv.Addr), s.moduleName(mv.Addr), mv.Coins)
			}
		}
		for d, o := range owed {
			fmt.Printf("DEBUG13 h=%d owed %s=%s balance=%s\n", eb.Height, d, o, app.BankKeeper.GetBalance(ctx, module, d).Amount)
		}
	}
	for d, o := range owed {
		bal := app.BankKeeper.GetBalance(ctx, module, d).Amount
		if bal.BigInt().Cmp(o) < 0 {
			s.Violate("C13", "credited_exceeds_balance", culpritOfBlock(eb, nil), "reward denom %s: module holds %s but rewards credited and not yet claimed sum to %s", d, bal, o)
		}
		s.Stats.Probe("rewards_credited")
	}
	// growth bound per holder: pending may grow by at most this block's distribution on its end-of-block balance
	for k, p := range st.pend {
		accKey := fmt.Sprintf("%d|%s", k.pool, k.denom)
		prevAcc := m.lastAcc[accKey]
		if prevAcc == nil {
			prevAcc = new(big.Rat)
		}
		cur := st.acc[accKey]
		if cur == nil {
			cur = new(big.Rat)
		}
		prevP := m.lastPend[k]
		if prevP == nil {
			prevP = new(big.Rat)
		}
		growth := new(big.Rat).Sub(p, prevP)
		delta := new(big.Rat).Sub(cur, prevAcc)
		bound := new(big.Rat).Mul(delta, new(big.Rat).SetInt(st.bal[k].BigInt()))
		bound.Quo(bound, oneShareRat)
		bound.Add(bound, big.NewRat(1, 1)) // Dec truncation dust
		if growth.Cmp(bound) > 0 {
			s.Violate("C13", "reward_for_uncommitted_time", culpritOfBlock(eb, nil), "pool %d %s holder %s: pending rewards grew by %s in this block, its committed balance %s earns at most %s from this block's distribution [before: %s] [after: %s]", k.pool, k.denom, shortAddr(k.holder), growth.FloatString(6), st.bal[k], bound.FloatString(6), m.lastParts[k], st.parts[k])
		}
	}
	m.lastAcc, m.lastPend, m.lastParts = st.acc, st.pend, st.parts
	s.Stats.Inc("checks/C13", float64(len(st.pend)))
	// drain test at sampled heights
	if eb.Height%37 == 0 {
		m.drain(s, st, "sampled")
	}
}

func (m *MonC13) AtEnd(s *Sim) {
	m.drain(s, m.compute(s.Ctx()), "end_of_run")
}

// drain: on a discarded branch of the state all holders claim in a seeded random
// order; every claim must succeed.
func (m *MonC13) drain(s *Sim, st *c13State, when string) {
	if len(st.holders) == 0 {
		return
	}
	base := s.Ctx()
	ctx, _ := base.CacheContext()
	order := append([]string(nil), st.holders...)
	r := s.Rng("drain")
	r.Shuffle(len(order), func(i, j int) { order[i], order[j] = order[j], order[i] })
	for _, h := range order {
		addr, err := sdk.AccAddressFromBech32(h)
		if err != nil {
			continue
		}
		recipient := addr
		if s.N0.App.BankKeeper.BlockedAddr(addr) {
			continue // module accounts cannot receive; they never claim for themselves
		}
		err = func() (err error) {
			defer func() {
				if rec := recover(); rec != nil {
					err = fmt.Errorf("panic: %v", rec)
				}
			}()
			return s.N0.App.MasterchefKeeper.ClaimRewards(ctx, addr, st.pools, recipient)
		}()
		if err != nil {
			s.Violate("C13", "claim_fails_in_drain", "drain/"+when, "drain test (%s, height %d): claim of %s failed after %d earlier claimants: %v", when, s.Height, shortAddr(h), indexOf(order, h), err)
			return
		}
	}
	s.Stats.Probe("drain_test_passed")
}

func indexOf(xs []string, x string) int {
	for i, v := range xs {
		if v == x {
			return i
		}
	}
	return -1
}
