package main

import (
	"fmt"
	"strings"

	sdkmath "cosmossdk.io/math"
	sdk "github.com/cosmos/cosmos-sdk/types"
	authtypes "github.com/cosmos/cosmos-sdk/x/auth/types"

	ammtypes "github.com/elys-network/elys/x/amm/types"
	commitmenttypes "github.com/elys-network/elys/x/commitment/types"
	perpetualtypes "github.com/elys-network/elys/x/perpetual/types"
	stablestaketypes "github.com/elys-network/elys/x/stablestake/types"
)

// ---------------------------------------------------------------------------
// C06 — vault value = cash + Σ(principal + unpaid interest)

func newMonC06(s *Sim) *StepMon {
	m := &StepMon{Prop: "C06", sim: s}
	vault := authtypes.NewModuleAddress(stablestaketypes.ModuleName)
	m.Eval = func(s *Sim, ctx sdk.Context) []Issue {
		k := s.N0.App.StablestakeKeeper
		p := k.GetParams(ctx)
		cash := s.N0.App.BankKeeper.GetBalance(ctx, vault, p.DepositDenom).Amount
		loans := sdkmath.ZeroInt()
		for _, d := range k.GetAllDebts(ctx) {
			loans = loans.Add(d.Borrowed).Add(d.InterestStacked).Sub(d.InterestPaid)
		}
		if !p.TotalValue.Equal(cash.Add(loans)) {
			return []Issue{issuef("total_value", "vault", "TotalValue=%s but cash=%s + outstanding loans (principal+stacked-paid interest)=%s = %s (difference %s)", p.TotalValue, cash, loans, cash.Add(loans), p.TotalValue.Sub(cash.Add(loans)))}
		}
		return nil
	}
	return m
}

// ---------------------------------------------------------------------------
// C08 — leveraged-LP totals equal Σ positions

func newMonC08(s *Sim) *StepMon {
	m := &StepMon{Prop: "C08", sim: s}
	m.Eval = func(s *Sim, ctx sdk.Context) []Issue {
		var out []Issue
		k := s.N0.App.LeveragelpKeeper
		positions := k.GetAllPositions(ctx)
		sum := map[uint64]sdkmath.Int{}
		live := map[string]bool{}
		for _, p := range positions {
			cur, ok := sum[p.AmmPoolId]
			if !ok {
				cur = sdkmath.ZeroInt()
			}
			sum[p.AmmPoolId] = cur.Add(p.LeveragedLpAmount)
			pa := p.GetPositionAddress()
			live[pa.String()] = true
			cm := s.N0.App.CommitmentKeeper.GetCommitments(ctx, pa)
			got := cm.GetCommittedAmountForDenom(ammtypes.GetPoolShareDenom(p.AmmPoolId))
			if !got.Equal(p.LeveragedLpAmount) {
				out = append(out, issuef("position_shares", fmt.Sprintf("position %d of %s", p.Id, p.Address), "LeveragedLpAmount=%s but %s shares are committed at the position address", p.LeveragedLpAmount, got))
			}
		}
		for _, lp := range k.GetAllPools(ctx) {
			want, ok := sum[lp.AmmPoolId]
			if !ok {
				want = sdkmath.ZeroInt()
			}
			if !lp.LeveragedLpAmount.Equal(want) {
				out = append(out, issuef("pool_total", fmt.Sprintf("pool %d", lp.AmmPoolId), "pool LeveragedLpAmount=%s but sum over %d open positions=%s", lp.LeveragedLpAmount, len(positions), want))
			}
		}
		if c := k.GetOpenPositionCount(ctx); c != uint64(len(positions)) {
			out = append(out, issuef("open_count", "counter", "open-position counter=%d but %d positions are stored", c, len(positions)))
		}
		// a fully closed position leaves no shares behind: position addresses are derived
		// from ids 1..PositionCount
		maxID := k.GetPositionCount(ctx)
		for id := uint64(1); id <= maxID; id++ {
			pa := leveragelpPositionAddress(id)
			if live[pa.String()] {
				continue
			}
			if !s.N0.App.CommitmentKeeper.HasCommitments(ctx, pa) {
				continue
			}
			cm := s.N0.App.CommitmentKeeper.GetCommitments(ctx, pa)
			for _, ct := range cm.CommittedTokens {
				if strings.HasPrefix(ct.Denom, "amm/pool/") && ct.Amount.IsPositive() {
					out = append(out, issuef("shares_left_behind", fmt.Sprintf("position id %d", id), "position no longer exists but %s%s is still committed at its address", ct.Amount, ct.Denom))
				}
			}
		}
		return out
	}
	return m
}

// ---------------------------------------------------------------------------
// C09 — perpetual aggregates equal Σ positions; custody backed

func newMonC09(s *Sim) *StepMon {
	m := &StepMon{Prop: "C09", sim: s}
	m.Eval = func(s *Sim, ctx sdk.Context) []Issue {
		var out []Issue
		k := s.N0.App.PerpetualKeeper
		mtps := k.GetAllMTPs(ctx)
		type key struct {
			pool  uint64
			pos   perpetualtypes.Position
			denom string
		}
		cust, liab, coll := map[key]sdkmath.Int{}, map[key]sdkmath.Int{}, map[key]sdkmath.Int{}
		add := func(m map[key]sdkmath.Int, k key, v sdkmath.Int) {
			cur, ok := m[k]
			if !ok {
				cur = sdkmath.ZeroInt()
			}
			m[k] = cur.Add(v)
		}
		get := func(m map[key]sdkmath.Int, k key) sdkmath.Int {
			if v, ok := m[k]; ok {
				return v
			}
			return sdkmath.ZeroInt()
		}
		for _, t := range mtps {
			add(cust, key{t.AmmPoolId, t.Position, t.CustodyAsset}, t.Custody)
			add(liab, key{t.AmmPoolId, t.Position, t.LiabilitiesAsset}, t.Liabilities)
			add(coll, key{t.AmmPoolId, t.Position, t.CollateralAsset}, t.Collateral)
		}
		for _, p := range k.GetAllPools(ctx) {
			ammPool, found := s.N0.App.AmmKeeper.GetPool(ctx, p.AmmPoolId)
			total := map[string]sdkmath.Int{}
			for _, side := range []struct {
				pos    perpetualtypes.Position
				assets []perpetualtypes.PoolAsset
			}{{perpetualtypes.Position_LONG, p.PoolAssetsLong}, {perpetualtypes.Position_SHORT, p.PoolAssetsShort}} {
				for _, a := range side.assets {
					kk := key{p.AmmPoolId, side.pos, a.AssetDenom}
					inst := fmt.Sprintf("pool %d %s %s", p.AmmPoolId, side.pos, a.AssetDenom)
					if !a.Custody.Equal(get(cust, kk)) {
						out = append(out, issuef("custody_sum", inst, "pool custody=%s but sum over positions=%s", a.Custody, get(cust, kk)))
					}
					if !a.Liabilities.Equal(get(liab, kk)) {
						out = append(out, issuef("liabilities_sum", inst, "pool liabilities=%s but sum over positions=%s", a.Liabilities, get(liab, kk)))
					}
					collP := a.Collateral
					if collP.IsNil() {
						collP = sdkmath.ZeroInt()
					}
					if !collP.Equal(get(coll, kk)) {
						out = append(out, issuef("collateral_sum", inst, "pool collateral=%s but sum over positions=%s", collP, get(coll, kk)))
					}
					cur, ok := total[a.AssetDenom]
					if !ok {
						cur = sdkmath.ZeroInt()
					}
					total[a.AssetDenom] = cur.Add(a.Custody)
				}
			}
			if found {
				for d, c := range total {
					if res := reserveOf(ammPool, d); res.LT(c) {
						out = append(out, issuef("custody_unbacked", fmt.Sprintf("pool %d %s", p.AmmPoolId, d), "liquidity pool reserve %s < total recorded custody %s", res, c))
					}
				}
			}
		}
		if c := k.GetOpenMTPCount(ctx); c != uint64(len(mtps)) {
			out = append(out, issuef("open_count", "counter", "open-position counter=%d but %d positions are stored", c, len(mtps)))
		}
		return out
	}
	return m
}

// ---------------------------------------------------------------------------
// C11 — accounted balance = reserve + liabilities − custody

func newMonC11(s *Sim) *StepMon {
	m := &StepMon{Prop: "C11", sim: s}
	m.Eval = func(s *Sim, ctx sdk.Context) []Issue {
		var out []Issue
		app := s.N0.App
		if app.PerpetualKeeper.GetParams(ctx).EnableTakeProfitCustodyLiabilities {
			return nil // by design a different formula (never enabled by the simulated governance)
		}
		for _, ap := range app.AccountedPoolKeeper.GetAllAccountedPool(ctx) {
			pp, found := app.PerpetualKeeper.GetPool(ctx, ap.PoolId)
			if !found {
				continue
			}
			ammPool, found := app.AmmKeeper.GetPool(ctx, ap.PoolId)
			if !found {
				continue
			}
			for _, tok := range ap.TotalTokens {
				l, c, _, _ := pp.GetPerpetualPoolBalances(tok.Denom)
				res := reserveOf(ammPool, tok.Denom)
				want := res.Add(l).Sub(c)
				inst := fmt.Sprintf("pool %d %s", ap.PoolId, tok.Denom)
				if !tok.Amount.Equal(want) {
					out = append(out, issuef("total_tokens", inst, "accounted balance=%s but reserve %s + liabilities %s - custody %s = %s", tok.Amount, res, l, c, want))
				}
				non := sdkmath.ZeroInt()
				for _, n := range ap.NonAmmPoolTokens {
					if n.Denom == tok.Denom {
						non = n.Amount
					}
				}
				if !non.Equal(l.Sub(c)) {
					out = append(out, issuef("non_amm_tokens", inst, "recorded non-pool part=%s but liabilities %s - custody %s = %s", non, l, c, l.Sub(c)))
				}
			}
		}
		return out
	}
	return m
}

// ---------------------------------------------------------------------------
// C12 — commitment ledger totals and custody (lock-ups: see MonC12Locks)

func newMonC12(s *Sim) *StepMon {
	m := &StepMon{Prop: "C12", sim: s}
	custody := authtypes.NewModuleAddress(commitmenttypes.ModuleName)
	// Known finding F04 (UncommitTokens ADDS to the chain-wide total): every uncommit of amount a
	// raises total - sum(accounts) by exactly 2a. uncommitted[d] is measured independently of the
	// commitment keeper: for bank-backed denoms as the bank outflow of the custody account (ledger),
	// for Eden/EdenB from the successful uncommit/unstake messages.
	uncommitted := map[string]sdkmath.Int{}
	m.BeforeBoundary = func(s *Sim, eb *ExecBlock) {
		cust := custody.String()
		for i := range s.Ledger.Moves {
			mv := &s.Ledger.Moves[i]
			if mv.Kind == "spent" && mv.Addr == cust {
				for _, c := range mv.Coins {
					uncommitted[c.Denom] = zeroIfNil(uncommitted, c.Denom).Add(c.Amount)
				}
			}
		}
		for _, t := range eb.Txs {
			if !t.OK() {
				continue
			}
			for _, msg := range flattenMsgs(t.Spec.Msgs) {
				switch x := msg.(type) {
				case *commitmenttypes.MsgUncommitTokens:
					uncommitted[x.Denom] = zeroIfNil(uncommitted, x.Denom).Add(x.Amount)
				case *commitmenttypes.MsgUnstake:
					if x.Asset == DenomEDEN || x.Asset == DenomEDENB {
						uncommitted[x.Asset] = zeroIfNil(uncommitted, x.Asset).Add(x.Amount)
					}
				}
			}
		}
	}
	m.Eval = func(s *Sim, ctx sdk.Context) []Issue {
		var out []Issue
		app := s.N0.App
		committed := map[string]sdkmath.Int{}
		claimed := map[string]sdkmath.Int{}
		app.CommitmentKeeper.IterateCommitments(ctx, func(c commitmenttypes.Commitments) bool {
			for _, ct := range c.CommittedTokens {
				committed[ct.Denom] = zeroIfNil(committed, ct.Denom).Add(ct.Amount)
				if ct.Amount.IsNegative() {
					out = append(out, issuef("negative_committed", c.Creator+" "+ct.Denom, "committed amount %s is negative", ct.Amount))
				}
				lockSum := sdkmath.ZeroInt()
				for _, l := range ct.Lockups {
					lockSum = lockSum.Add(l.Amount)
				}
				_ = lockSum
			}
			for _, cl := range c.Claimed {
				claimed[cl.Denom] = zeroIfNil(claimed, cl.Denom).Add(cl.Amount)
			}
			return false
		})
		total := app.CommitmentKeeper.GetParams(ctx).TotalCommitted
		denoms := map[string]bool{}
		for d := range committed {
			denoms[d] = true
		}
		for _, c := range total {
			denoms[c.Denom] = true
		}
		for d := range denoms {
			t := total.AmountOf(d)
			if !t.Equal(zeroIfNil(committed, d)) {
				diff := t.Sub(zeroIfNil(committed, d))
				explained := zeroIfNil(uncommitted, d).MulRaw(2)
				sub := "total_vs_sum"
				// EdenB is additionally burned from the committed bucket without touching the total
				// (same defect family): there the drift is at least the explained amount.
				if diff.Equal(explained) || (d == DenomEDENB && diff.GTE(explained)) {
					sub = "total_vs_sum_uncommit_adds"
				}
				out = append(out, issuef(sub, d, "chain-wide committed total=%s but sum over accounts=%s (difference %s; 2 x uncommitted so far = %s)", t, zeroIfNil(committed, d), diff, explained))
			}
		}
		for d := range denoms {
			if d == DenomEDEN || d == DenomEDENB {
				continue // not bank-backed: exist only in the commitment ledger
			}
			held := app.BankKeeper.GetBalance(ctx, custody, d).Amount
			need := zeroIfNil(committed, d).Add(zeroIfNil(claimed, d))
			if held.LT(need) {
				out = append(out, issuef("custody_short", d, "custody account holds %s but committed %s + claimed %s = %s", held, zeroIfNil(committed, d), zeroIfNil(claimed, d), need))
			}
		}
		return out
	}
	return m
}
