package main

import (
	"fmt"
	"math"
	"math/rand/v2"

	sdkmath "cosmossdk.io/math"
	sdk "github.com/cosmos/cosmos-sdk/types"
	"github.com/cometbft/cometbft/crypto"

	ammtypes "github.com/elys-network/elys/x/amm/types"
	commitmenttypes "github.com/elys-network/elys/x/commitment/types"
)

// ---------------------------------------------------------------------------
// C03 history clauses: "a round trip A->B->A or a trade split into pieces never gains more than
// that rounding allowance".
//
// checkPrice judges every swap the chain executes on its own. These probes decide the two history
// clauses directly on the states the simulated histories reach (reserves, weights and fees produced
// by other parties' joins, exits, swaps, fee skims and governance): on discarded branches of the
// committed state a freshly funded account trades through the chain's own routing functions
// (the ones the end-of-block executor calls, with fees, discounts and hooks) -
//   * A->B then everything back B->A (exact-in form), or buys Y of B and then buys back exactly the
//     A it paid (exact-out form): its wealth in the starting token must not grow;
//   * the same trade once in one piece and once, on a sibling branch, cut into k pieces: the pieces
//     together must not fetch more (exact-in) / cost less (exact-out) than the single trade.
// Allowance: one base unit per executed swap; for unequal weights additionally the power
// approximation's 1e-8 relative precision of the power term of each executed swap, carried to the
// token the result is measured in at the marginal price.
// Choices (pair, direction, size, cut points) are a pure function of the run's seed and the pool's
// state, so a minimised replay draws the same probe on the same state.

var probeAddr = sdk.AccAddress(crypto.AddressHash([]byte("elyssim/c03-history-probe")))

func poolSig(p ammtypes.Pool) string {
	s := fmt.Sprintf("%d|%s|", p.PoolId, p.PoolParams.SwapFee)
	for _, a := range p.PoolAssets {
		s += a.Token.String() + "/" + a.Weight.String() + ","
	}
	return s
}

func (m *MonSwaps) historyProbes(s *Sim) {
	app := s.N0.App
	base := s.Ctx()
	if m.probed == nil {
		m.probed = map[uint64]string{}
	}
	for _, p := range app.AmmKeeper.GetAllPool(base) {
		if p.PoolParams.UseOracle || len(p.PoolAssets) < 2 {
			continue
		}
		if k0, seen := m.kind0[p.PoolId]; seen && k0 != p.PoolParams.UseOracle {
			continue // converted by governance: outside the quantifier (see checkPrice)
		}
		sig := poolSig(p)
		if m.probed[p.PoolId] == sig || (s.Height+int64(p.PoolId))%3 != 0 {
			continue
		}
		m.probed[p.PoolId] = sig
		r := rand.New(rand.NewPCG(s.Seed, hash64("c03probe/"+sig)))
		i := r.IntN(len(p.PoolAssets))
		j := (i + 1 + r.IntN(len(p.PoolAssets)-1)) % len(p.PoolAssets)
		a, b := p.PoolAssets[i], p.PoolAssets[j]
		if !a.Token.Amount.IsPositive() || !b.Token.Amount.IsPositive() {
			continue
		}
		exactOut := r.IntN(3) == 0
		ra, _ := a.Token.Amount.ToLegacyDec().Float64()
		rb, _ := b.Token.Amount.ToLegacyDec().Float64()
		var x sdkmath.Int
		if exactOut {
			x = logUniform(r, 1, rb*0.9) // amount of B bought
		} else {
			x = logUniform(r, 1, ra*3) // amount of A sold
		}
		k := 2 + r.IntN(4)
		cuts := make([]float64, k)
		tot := 0.0
		for c := range cuts {
			cuts[c] = 0.05 + r.Float64()
			tot += cuts[c]
		}
		pieces := make([]sdkmath.Int, 0, k)
		left := x
		for c := 0; c < k-1; c++ {
			pc := sdkmath.NewInt(int64(float64(x.Int64()) * cuts[c] / tot))
			if pc.IsPositive() && pc.LT(left) {
				pieces = append(pieces, pc)
				left = left.Sub(pc)
			}
		}
		pieces = append(pieces, left)
		wa, _ := a.Weight.ToLegacyDec().Float64()
		wb, _ := b.Weight.ToLegacyDec().Float64()
		unequal := !a.Weight.Equal(b.Weight)
		m.probeRoundTrip(s, p, a.Token.Denom, b.Token.Denom, x, exactOut, unequal, ra, rb, wa, wb)
		if len(pieces) >= 2 {
			m.probeSplit(s, p, a.Token.Denom, b.Token.Denom, x, pieces, exactOut, unequal, ra, rb, wa, wb)
		}
	}
}

// fundedBranch: a discarded branch of the committed state on which the probe account holds plenty
// of both tokens.
func (m *MonSwaps) fundedBranch(s *Sim, denoms ...string) (sdk.Context, bool) {
	app := s.N0.App
	base := s.Ctx()
	ctx, _ := base.CacheContext()
	ctx = ctx.WithEventManager(sdk.NewEventManager())
	var cs sdk.Coins
	for _, d := range denoms {
		cs = cs.Add(sdk.NewCoin(d, sdkmath.NewIntWithDecimal(1, 30)))
	}
	if err := app.BankKeeper.MintCoins(ctx, commitmenttypes.ModuleName, cs); err != nil {
		return ctx, false
	}
	if err := app.BankKeeper.SendCoinsFromModuleToAccount(ctx, commitmenttypes.ModuleName, probeAddr, cs); err != nil {
		return ctx, false
	}
	return ctx, true
}

func (m *MonSwaps) sell(s *Sim, ctx sdk.Context, pool uint64, in sdk.Coin, outDenom string) (sdkmath.Int, error) {
	out, _, _, err := s.N0.App.AmmKeeper.RouteExactAmountIn(ctx, probeAddr, probeAddr, []ammtypes.SwapAmountInRoute{{PoolId: pool, TokenOutDenom: outDenom}}, in, sdkmath.OneInt())
	return out, err
}

func (m *MonSwaps) buy(s *Sim, ctx sdk.Context, pool uint64, inDenom string, out sdk.Coin) (sdkmath.Int, error) {
	in, _, _, err := s.N0.App.AmmKeeper.RouteExactAmountOut(ctx, probeAddr, probeAddr, []ammtypes.SwapAmountOutRoute{{PoolId: pool, TokenInDenom: inDenom}}, sdkmath.NewIntWithDecimal(1, 29), out)
	return in, err
}

func (m *MonSwaps) probeRoundTrip(s *Sim, p ammtypes.Pool, A, B string, x sdkmath.Int, exactOut, unequal bool, ra, rb, wa, wb float64) {
	defer func() { _ = recover() }()
	app := s.N0.App
	ctx, ok := m.fundedBranch(s, A, B)
	if !ok {
		return
	}
	bal := func(d string) sdkmath.Int { return app.BankKeeper.GetBalance(ctx, probeAddr, d).Amount }
	a0, b0 := bal(A), bal(B)
	form := "exact_in"
	// spot prices at the start and after the first leg (the two extremes of the trip)
	aPerB := m.marginal(s, ctx, p.PoolId, A, B)
	bPerA := m.marginal(s, ctx, p.PoolId, B, A)
	mid := func() {
		aPerB = math.Max(aPerB, m.marginal(s, ctx, p.PoolId, A, B))
		bPerA = math.Max(bPerA, m.marginal(s, ctx, p.PoolId, B, A))
	}
	if !exactOut {
		out1, err := m.sell(s, ctx, p.PoolId, sdk.NewCoin(A, x), B)
		if err != nil || !out1.IsPositive() {
			return
		}
		mid()
		if _, err := m.sell(s, ctx, p.PoolId, sdk.NewCoin(B, out1), A); err != nil {
			return
		}
	} else {
		form = "exact_out"
		in1, err := m.buy(s, ctx, p.PoolId, A, sdk.NewCoin(B, x))
		if err != nil || !in1.IsPositive() {
			return
		}
		mid()
		if _, err := m.buy(s, ctx, p.PoolId, B, sdk.NewCoin(A, in1)); err != nil {
			return
		}
	}
	s.Stats.Probe("swap_round_trip_checked_" + form)
	if unequal {
		s.Stats.Probe("swap_round_trip_checked_unequal_weight")
	}
	da, db := bal(A).Sub(a0), bal(B).Sub(b0)
	// wealth measured in the token the trip started from; the other token must not have grown either
	p2, _ := app.AmmKeeper.GetPool(ctx, p.PoolId)
	ra2, _ := reserveOf(p2, A).ToLegacyDec().Float64()
	rb2, _ := reserveOf(p2, B).ToLegacyDec().Float64()
	allowA, allowB := 2.0+2*aPerB, 2.0+2*bPerA
	if unequal {
		// each swap's power term carries 1e-8 relative precision; an excess in the intermediate token
		// comes back at (no better than) the marginal price of the second swap. Generous upper bounds.
		big := func(v float64) float64 {
			if v < 1 {
				return 1
			}
			return v
		}
		allowA += 1e-8 * (ra + ra2) * (1 + (wb/wa)*big(rb/big(rb2)))
		allowB += 1e-8 * (rb + rb2) * (1 + (wa/wb)*big(ra/big(ra2)))
	}
	fa, _ := da.ToLegacyDec().Float64()
	fb, _ := db.ToLegacyDec().Float64()
	if (fa > allowA && fb >= 0) || (fb > allowB && fa >= 0) {
		s.Violate("C03", "round_trip_gain_"+form, "history probe", "pool %d (weights %s:%s fee %s) at height %d: a round trip %s -> %s -> %s of %s (%s form) on reserves %s/%s leaves the trader with %s%s and %s%s more than before (allowance %.3f / %.3f)", p.PoolId, fmtW(p, A), fmtW(p, B), p.PoolParams.SwapFee, s.Height, A, B, A, x, form, reserveOf(p, A), reserveOf(p, B), da, A, db, B, allowA, allowB)
	}
}

// marginal: how many base units of `num` one base unit of `den` is worth at the pool's spot price
// on ctx ((R_num/w_num)/(R_den/w_den)), at least 1. Reserves are integers: the fee skim and the
// payout each round by up to one base unit of their token, and on a lopsided pool one unit of the
// scarce token is worth many units of the other - the probes' allowance counts one base unit of
// EITHER token per executed swap, valued in the token the result is measured in.
func (m *MonSwaps) marginal(s *Sim, ctx sdk.Context, pool uint64, num, den string) float64 {
	p, ok := s.N0.App.AmmKeeper.GetPool(ctx, pool)
	if !ok {
		return 1
	}
	var rn, rd, wn, wd float64
	for _, a := range p.PoolAssets {
		r, _ := a.Token.Amount.ToLegacyDec().Float64()
		w, _ := a.Weight.ToLegacyDec().Float64()
		if a.Token.Denom == num {
			rn, wn = r, w
		}
		if a.Token.Denom == den {
			rd, wd = r, w
		}
	}
	if rd <= 0 || wn <= 0 || wd <= 0 {
		return 1
	}
	v := (rn / wn) / (rd / wd)
	if v < 1 {
		return 1
	}
	return v
}

func fmtW(p ammtypes.Pool, d string) string {
	for _, a := range p.PoolAssets {
		if a.Token.Denom == d {
			return a.Weight.String()
		}
	}
	return "?"
}

func (m *MonSwaps) probeSplit(s *Sim, p ammtypes.Pool, A, B string, x sdkmath.Int, pieces []sdkmath.Int, exactOut, unequal bool, ra, rb, wa, wb float64) {
	defer func() { _ = recover() }()
	ctx1, ok1 := m.fundedBranch(s, A, B)
	ctx2, ok2 := m.fundedBranch(s, A, B)
	if !ok1 || !ok2 {
		return
	}
	k := float64(len(pieces))
	if !exactOut {
		bPerA := m.marginal(s, ctx1, p.PoolId, B, A) // the best price of the path is the one at its start
		single, err := m.sell(s, ctx1, p.PoolId, sdk.NewCoin(A, x), B)
		if err != nil {
			return
		}
		sum := sdkmath.ZeroInt()
		for _, pc := range pieces {
			o, err := m.sell(s, ctx2, p.PoolId, sdk.NewCoin(A, pc), B)
			if err != nil {
				return // a piece too small to trade: nothing to compare
			}
			sum = sum.Add(o)
		}
		s.Stats.Probe("swap_split_checked_exact_in")
		allow := (k + 1) * (1 + bPerA)
		if unequal {
			allow += (k + 1) * 1e-8 * rb
		}
		d, _ := sum.Sub(single).ToLegacyDec().Float64()
		if d > allow {
			s.Violate("C03", "split_trade_gain_exact_in", "history probe", "pool %d (weights %s:%s fee %s) at height %d: selling %s%s for %s on reserves %s/%s fetches %s in one piece but %s when cut into %v (allowance %.3f)", p.PoolId, fmtW(p, A), fmtW(p, B), p.PoolParams.SwapFee, s.Height, x, A, B, reserveOf(p, A), reserveOf(p, B), single, sum, pieces, allow)
		}
		return
	}
	single, err := m.buy(s, ctx1, p.PoolId, A, sdk.NewCoin(B, x))
	if err != nil {
		return
	}
	sum := sdkmath.ZeroInt()
	for _, pc := range pieces {
		i, err := m.buy(s, ctx2, p.PoolId, A, sdk.NewCoin(B, pc))
		if err != nil {
			return
		}
		sum = sum.Add(i)
	}
	s.Stats.Probe("swap_split_checked_exact_out")
	allow := (k + 1) * (1 + m.marginal(s, ctx1, p.PoolId, A, B)) // ctx1 is at the end of the path, where B is dearest
	if unequal {
		// the power term of an exact-out swap is (B_out/(B_out-out))^(w_out/w_in) >= 1 and multiplies B_in
		pw := 1.0
		if xf, _ := x.ToLegacyDec().Float64(); xf < rb {
			pw = math.Pow(rb/(rb-xf), wb/wa)
		}
		allow += (k + 1) * 1e-8 * ra * pw
	}
	d, _ := single.Sub(sum).ToLegacyDec().Float64()
	if d > allow {
		s.Violate("C03", "split_trade_gain_exact_out", "history probe", "pool %d (weights %s:%s fee %s) at height %d: buying %s%s with %s on reserves %s/%s costs %s in one piece but only %s when cut into %v (allowance %.3f)", p.PoolId, fmtW(p, A), fmtW(p, B), p.PoolParams.SwapFee, s.Height, x, B, A, reserveOf(p, A), reserveOf(p, B), single, sum, pieces, allow)
	}
}
