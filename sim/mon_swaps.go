package main

import (
	"fmt"
	"os"
	"math"
	"math/big"
	"strconv"
	"strings"

	sdkmath "cosmossdk.io/math"
	abci "github.com/cometbft/cometbft/abci/types"
	sdk "github.com/cosmos/cosmos-sdk/types"
	banktypes "github.com/cosmos/cosmos-sdk/x/bank/types"

	ammtypes "github.com/elys-network/elys/x/amm/types"
)

// ---------------------------------------------------------------------------
// C03 + C04 — swaps
//
// Every real swap executes in the amm end blocker (the message handlers only
// dry-run and queue a request). The monitor
//  * records the accepted requests of a block by diffing the transient request
//    queue after every successful transaction (C04 reference model: one record
//    per accepted request),
//  * walks the ordered end-block events (bank transfers + swap events),
//    reconstructing every pool's reserves immediately before each swap from the
//    real bank movements (C01 ties book reserves to the bank balance), checks the
//    price bound of every executed swap (C03) and matches swaps to requests (C04).

type swapReq struct {
	tx        int
	exactIn   bool
	sender    string
	recipient string
	routesIn  []ammtypes.SwapAmountInRoute
	routesOut []ammtypes.SwapAmountOutRoute
	tokenIn   sdk.Coin // exact-in
	minOut    sdkmath.Int
	tokenOut  sdk.Coin // exact-out
	maxIn     sdkmath.Int
	settled   int
	key       string
}

type swapEvt struct {
	pool      uint64
	sender    string
	recipient string
	in, out   sdk.Coin
	pre       map[string]sdkmath.Int // pool reserves (bank-derived) immediately before the swap
	used      bool
	bonus     sdkmath.Int // paid by the rebalance treasury to the recipient inside this swap
	poolPaid  sdk.Coins   // everything the pool's own address paid to the swap's sender and recipient while this swap was in flight
	poolObj   ammtypes.Pool
	exactOut  bool // belongs to an exact-out request: the implementation's rounding is on the input side
}

type MonSwaps struct {
	sim      *Sim
	reqs     []*swapReq
	seenKeys map[string]int
	queueLen int
	checkedHeight int64
	kind0 map[uint64]bool // UseOracle of every pool when first seen
	probed map[uint64]string // pool state last used by the history probes
}

var debugC04 = os.Getenv("ELYSSIM_DEBUG_C04") != ""

func newMonSwaps(s *Sim) *MonSwaps { return &MonSwaps{sim: s, seenKeys: map[string]int{}} }

func (m *MonSwaps) Name() string { return "C03+C04" }
func (m *MonSwaps) AtEnd(s *Sim)  {}

func (m *MonSwaps) PreTx(ctx sdk.Context, t *ExecTx) {
	// a request accepted in an earlier block must not linger: before the first
	// transaction of a block the queue is empty
	if m.checkedHeight == ctx.BlockHeight() {
		return
	}
	m.checkedHeight = ctx.BlockHeight()
	k := m.sim.N0.App.AmmKeeper
	if n := len(k.GetAllSwapExactAmountInRequests(ctx)) + len(k.GetAllSwapExactAmountOutRequests(ctx)); n > 0 {
		m.sim.Violate("C04", "request_lingers", "BeginBlock", "height %d: %d swap request(s) of an earlier block are still queued before the first transaction", ctx.BlockHeight(), n)
	}
}

func (m *MonSwaps) PostTx(ctx sdk.Context, t *ExecTx) {
	k := m.sim.N0.App.AmmKeeper
	ins := k.GetAllSwapExactAmountInRequests(ctx)
	outs := k.GetAllSwapExactAmountOutRequests(ctx)
	// The queued request is what the chain derived from the user's message; for MsgSwapByDenom the
	// chain builds it itself, so the recipient the USER stated (not the one the chain copied, or
	// failed to copy, into the queue) is the reference.
	stated := ""
	if ms := flattenMsgs(t.Spec.Msgs); len(ms) == 1 {
		if x, ok := ms[0].(*ammtypes.MsgSwapByDenom); ok {
			if _, err := sdk.AccAddressFromBech32(x.Recipient); err == nil {
				stated = x.Recipient
			}
		}
	}
	// the queue only grows during the transaction phase; identical messages are
	// distinguished by multiplicity
	count := map[string]int{}
	for i := range ins {
		msg := ins[i]
		key := "in|" + msg.String()
		count[key]++
		if count[key] > m.seenKeys[key] {
			m.seenKeys[key]++
			rc := msg.Recipient
			if _, err := sdk.AccAddressFromBech32(rc); err != nil {
				rc = msg.Sender
			}
			if stated != "" {
				rc = stated
			}
			m.reqs = append(m.reqs, &swapReq{tx: t.Index, exactIn: true, sender: msg.Sender, recipient: rc, routesIn: msg.Routes, tokenIn: msg.TokenIn, minOut: msg.TokenOutMinAmount, key: key})
		}
	}
	for i := range outs {
		msg := outs[i]
		key := "out|" + msg.String()
		count[key]++
		if count[key] > m.seenKeys[key] {
			m.seenKeys[key]++
			rc := msg.Recipient
			if _, err := sdk.AccAddressFromBech32(rc); err != nil {
				rc = msg.Sender
			}
			if stated != "" {
				rc = stated
			}
			m.reqs = append(m.reqs, &swapReq{tx: t.Index, exactIn: false, sender: msg.Sender, recipient: rc, routesOut: msg.Routes, tokenOut: msg.TokenOut, maxIn: msg.TokenInMaxAmount, key: key})
		}
	}
}

func parseCoin1(s string) (sdk.Coin, bool) {
	cs, err := sdk.ParseCoinsNormalized(s)
	if err != nil || len(cs) != 1 {
		return sdk.Coin{}, false
	}
	return cs[0], true
}

func (m *MonSwaps) AfterBlock(s *Sim, eb *ExecBlock) {
	defer func() { m.reqs = nil; m.seenKeys = map[string]int{} }()
	if m.kind0 == nil {
		m.kind0 = map[uint64]bool{}
	}
	for _, p := range s.N0.App.AmmKeeper.GetAllPool(s.Ctx()) {
		if _, seen := m.kind0[p.PoolId]; !seen {
			m.kind0[p.PoolId] = p.PoolParams.UseOracle // recorded in the block the pool appears in
		}
	}
	m.historyProbes(s)
	if !s.Ledger.BlockOK {
		return // the event stream of this block is unusable (see Ledger.Ingest)
	}
	app := s.N0.App
	ctx := s.Ctx()
	// pools by address / id, with reserves at the END of the block; walk backwards to get
	// the reserves at the start of the end-block phase
	type pinfo struct {
		pool     ammtypes.Pool
		bal      map[string]sdkmath.Int
		treasury string
	}
	byAddr := map[string]*pinfo{}
	byID := map[uint64]*pinfo{}
	treasuries := map[string]*pinfo{}
	for _, p := range app.AmmKeeper.GetAllPool(ctx) {
		pi := &pinfo{pool: p, bal: map[string]sdkmath.Int{}, treasury: p.RebalanceTreasury}
		for _, a := range p.PoolAssets {
			pi.bal[a.Token.Denom] = a.Token.Amount // book reserve at end of block
		}
		byAddr[p.Address] = pi
		byID[p.PoolId] = pi
		treasuries[p.RebalanceTreasury] = pi
	}
	// ordered end-block events
	var end []abci.Event
	for _, ev := range eb.Res.Resp.Events {
		if attr(ev, "mode") == "EndBlock" {
			end = append(end, ev)
		}
	}
	type xfer struct {
		from, to string
		coins    sdk.Coins
	}
	// rewind: reserves before end block = reserves at end - (all transfers in) + (all transfers out)
	var xfers []*xfer
	idxOf := map[int]*xfer{}
	for i, ev := range end {
		if ev.Type != banktypes.EventTypeTransfer {
			continue
		}
		cs, err := sdk.ParseCoinsNormalized(attr(ev, sdk.AttributeKeyAmount))
		if err != nil {
			continue
		}
		x := &xfer{from: attr(ev, banktypes.AttributeKeySender), to: attr(ev, banktypes.AttributeKeyRecipient), coins: cs}
		xfers = append(xfers, x)
		idxOf[i] = x
	}
	for _, x := range xfers {
		if pi := byAddr[x.to]; pi != nil {
			for _, c := range x.coins {
				if cur, ok := pi.bal[c.Denom]; ok {
					pi.bal[c.Denom] = cur.Sub(c.Amount)
				}
			}
		}
		if pi := byAddr[x.from]; pi != nil {
			for _, c := range x.coins {
				if cur, ok := pi.bal[c.Denom]; ok {
					pi.bal[c.Denom] = cur.Add(c.Amount)
				}
			}
		}
	}
	// forward walk
	type pending struct {
		pool  *pinfo
		from  string
		coins sdk.Coins
		snap  map[string]sdkmath.Int
		bonus map[string]sdkmath.Int // recipient|denom -> amount paid by treasury since this entry was pushed
		paid  sdk.Coins              // transfers out of the pool's own address since this entry was pushed
		paidTo map[string]sdk.Coins  // the same by destination
	}
	var stack []*pending
	var swaps []*swapEvt
	for i, ev := range end {
		if x := idxOf[i]; x != nil {
			if pi := byAddr[x.to]; pi != nil {
				snap := map[string]sdkmath.Int{}
				for d, v := range pi.bal {
					snap[d] = v
				}
				stack = append(stack, &pending{pool: pi, from: x.from, coins: x.coins, snap: snap, bonus: map[string]sdkmath.Int{}})
				for _, c := range x.coins {
					if cur, ok := pi.bal[c.Denom]; ok {
						pi.bal[c.Denom] = cur.Add(c.Amount)
					}
				}
			}
			if pi := byAddr[x.from]; pi != nil {
				for _, c := range x.coins {
					if cur, ok := pi.bal[c.Denom]; ok {
						pi.bal[c.Denom] = cur.Sub(c.Amount)
					}
				}
				for j := len(stack) - 1; j >= 0; j-- {
					if stack[j].pool == pi {
						stack[j].paid = stack[j].paid.Add(x.coins...)
						if stack[j].paidTo == nil {
							stack[j].paidTo = map[string]sdk.Coins{}
						}
						stack[j].paidTo[x.to] = stack[j].paidTo[x.to].Add(x.coins...)
						break
					}
				}
			}
			if pi := treasuries[x.from]; pi != nil && byAddr[x.to] == nil {
				// treasury pays someone: a rebalancing bonus (or fee forwarding to the revenue address)
				for j := len(stack) - 1; j >= 0; j-- {
					if stack[j].pool == pi {
						for _, c := range x.coins {
							k := x.to + "|" + c.Denom
							stack[j].bonus[k] = zeroIfNil(stack[j].bonus, k).Add(c.Amount)
						}
						break
					}
				}
			}
			continue
		}
		if ev.Type != ammtypes.TypeEvtTokenSwapped {
			continue
		}
		pid, _ := strconv.ParseUint(attr(ev, ammtypes.AttributeKeyPoolId), 10, 64)
		in, ok1 := parseCoin1(attr(ev, ammtypes.AttributeKeyTokensIn))
		out, ok2 := parseCoin1(attr(ev, ammtypes.AttributeKeyTokensOut))
		if !ok1 || !ok2 {
			continue
		}
		se := &swapEvt{pool: pid, sender: attr(ev, sdk.AttributeKeySender), recipient: attr(ev, ammtypes.AttributeKeyRecipient), in: in, out: out, bonus: sdkmath.ZeroInt()}
		for j := len(stack) - 1; j >= 0; j-- {
			p := stack[j]
			if p.pool.pool.PoolId == pid && p.from == se.sender && p.coins.Equal(sdk.NewCoins(in)) {
				se.pre = p.snap
				se.bonus = zeroIfNil(p.bonus, se.recipient+"|"+out.Denom)
				// what the pool's own address paid to the trading side (sender and recipient); transfers to
				// the pool's rebalance treasury and to the protocol's fee collectors are costs of the
				// trader, not payouts (with the fee-split knobs away from their defaults the weight-breaking
				// fee forwarded to the treasury can be most of the input)
				se.poolPaid = sdk.Coins{}
				for _, to := range []string{se.sender, se.recipient} {
					if c, ok := p.paidTo[to]; ok {
						se.poolPaid = se.poolPaid.Add(c...)
						delete(p.paidTo, to)
					}
				}
				stack = append(stack[:j], stack[j+1:]...)
				break
			}
		}
		swaps = append(swaps, se)
		if se.pre == nil {
			s.Harness("C03: could not reconstruct reserves before swap %v (no matching transfer into the pool)", se)
			continue
		}
		se.poolObj = byID[pid].pool
	}
	m.matchRequests(s, eb, swaps)
	for _, se := range swaps {
		if se.pre != nil {
			m.checkPrice(s, eb, se.poolObj, se)
		}
	}
}

// ---------------------------------------------------------------------------
// C03: price bound of one executed swap

func bigOf(i sdkmath.Int) *big.Int { return i.BigInt() }

func (m *MonSwaps) checkPrice(s *Sim, eb *ExecBlock, pool ammtypes.Pool, se *swapEvt) {
	// A pool whose kind governance has switched (oracle <-> constant product, only the edge-case
	// governance agent of the C18 profile does that) keeps weights and an accounted pool from its
	// former life; C03 quantifies over reserves, weights, fees and prices, not over such
	// conversions, so its swaps are not judged.
	if m.kind0 == nil {
		m.kind0 = map[uint64]bool{}
	}
	if k0, seen := m.kind0[pool.PoolId]; !seen {
		m.kind0[pool.PoolId] = pool.PoolParams.UseOracle
	} else if k0 != pool.PoolParams.UseOracle {
		s.Stats.Probe("swap_on_pool_converted_by_governance_not_judged")
		return
	}
	s.Stats.Probe("swap_checked")
	bin, okIn := se.pre[se.in.Denom]
	bout, okOut := se.pre[se.out.Denom]
	culprit := "EndBlock/swap"
	if !okIn || !okOut {
		s.Violate("C03", "swap_unknown_asset", culprit, "pool %d swapped %s for %s but does not hold both assets", pool.PoolId, se.in, se.out)
		return
	}
	inst := fmt.Sprintf("pool %d (oracle=%v) swap %s -> %s by %s, reserves before: in=%s out=%s", pool.PoolId, pool.PoolParams.UseOracle, se.in, se.out, shortAddr(se.sender), bin, bout)
	if !pool.PoolParams.UseOracle {
		var win, wout sdkmath.Int
		for _, a := range pool.PoolAssets {
			if a.Token.Denom == se.in.Denom {
				win = a.Weight
			}
			if a.Token.Denom == se.out.Denom {
				wout = a.Weight
			}
		}
		if win.Equal(wout) {
			if !se.exactOut {
				// exact: out <= B_out * in / (B_in + in)  (+1 base unit rounding allowance)
				num := new(big.Int).Mul(bigOf(bout), bigOf(se.in.Amount))
				den := new(big.Int).Add(bigOf(bin), bigOf(se.in.Amount))
				bound := new(big.Int).Quo(num, den)
				bound.Add(bound, big.NewInt(1))
				if bigOf(se.out.Amount).Cmp(bound) > 0 {
					s.Violate("C03", "cp_out_exceeds_formula", culprit, "%s: paid out %s, the exact constant-product formula allows at most %s (+1 unit rounding included)", inst, se.out.Amount, bound)
				}
			} else if se.out.Amount.LT(bout) {
				// exact-out: in >= B_in * out / (B_out - out)  (-1 base unit rounding allowance)
				num := new(big.Int).Mul(bigOf(bin), bigOf(se.out.Amount))
				den := new(big.Int).Sub(bigOf(bout), bigOf(se.out.Amount))
				bound := new(big.Int).Quo(num, den)
				bound.Sub(bound, big.NewInt(1))
				if bigOf(se.in.Amount).Cmp(bound) < 0 {
					s.Violate("C03", "cp_in_below_formula", culprit, "%s (exact-out): charged %s, the exact constant-product formula requires at least %s (-1 unit rounding included)", inst, se.in.Amount, bound)
				}
			}
			s.Stats.Probe("swap_checked_equal_weight")
		} else {
			bi, _ := new(big.Float).SetInt(bigOf(bin)).Float64()
			bo, _ := new(big.Float).SetInt(bigOf(bout)).Float64()
			ai, _ := new(big.Float).SetInt(bigOf(se.in.Amount)).Float64()
			ao, _ := new(big.Float).SetInt(bigOf(se.out.Amount)).Float64()
			wi, _ := new(big.Float).SetInt(bigOf(win)).Float64()
			wo, _ := new(big.Float).SetInt(bigOf(wout)).Float64()
			// allowance: the power approximation's documented precision 1e-8 of the power term,
			// i.e. 1e-8 of the reserve it multiplies, plus one base unit
			if !se.exactOut {
				bound := bo * (1 - math.Pow(bi/(bi+ai), wi/wo))
				allow := bo*1e-8 + 1
				if ao > bound+allow {
					s.Violate("C03", "weighted_out_exceeds_formula", culprit, "%s weights %s/%s: paid out %.0f, weighted-product formula allows %.3f (+%.3f allowance)", inst, win, wout, ao, bound, allow)
				}
			} else if ao < bo {
				pw := math.Pow(bo/(bo-ao), wo/wi)
				bound := bi * (pw - 1)
				// 1e-8 RELATIVE precision of the power term (which is >= 1 here and can be large
				// when most of the reserve is bought), i.e. B_in * pow * 1e-8, plus one base unit
				allow := bi*pw*1e-8 + 1
				if ai < bound-allow {
					s.Violate("C03", "weighted_in_below_formula", culprit, "%s weights %s/%s (exact-out): charged %.0f, weighted-product formula requires %.3f (-%.3f allowance)", inst, win, wout, ai, bound, allow)
				}
			}
			s.Stats.Probe("swap_checked_unequal_weight")
		}
		// Fee-aware bound for swaps that belong to a user's request: the pool's swap fee is
		// deducted from the input before the formula. The fee actually applied is at least
		// poolFee x 1/2 (two-hop routing charges max(largest fee, half the sum), spread pro rata)
		// x (1 - 0.3) (largest membership-tier discount), so the payout may not exceed the formula
		// evaluated on in x (1 - 0.35 poolFee). Float arithmetic with the same allowances as above.
		if fee := pool.PoolParams.SwapFee; se.used && !fee.IsNil() && fee.IsPositive() {
			f, _ := fee.Float64()
			flb := f * 0.5 * 0.7
			bi, _ := new(big.Float).SetInt(bigOf(bin)).Float64()
			bo, _ := new(big.Float).SetInt(bigOf(bout)).Float64()
			ai, _ := new(big.Float).SetInt(bigOf(se.in.Amount)).Float64()
			ao, _ := new(big.Float).SetInt(bigOf(se.out.Amount)).Float64()
			wi, _ := new(big.Float).SetInt(bigOf(win)).Float64()
			wo, _ := new(big.Float).SetInt(bigOf(wout)).Float64()
			if !se.exactOut {
				aiEff := ai * (1 - flb)
				bound := bo * (1 - math.Pow(bi/(bi+aiEff), wi/wo))
				allow := bo*1e-8 + 1 + bound*1e-12
				if ao > bound+allow {
					s.Violate("C03", "out_exceeds_formula_after_minimum_fee", culprit, "%s weights %s/%s, pool fee %s: paid out %.0f, the formula on the input less the smallest fee any discount and routing rule allows (%.6f%%) gives at most %.3f (+%.3f allowance)", inst, win, wout, fee, ao, flb*100, bound, allow)
				}
			} else if ao < bo {
				pw := math.Pow(bo/(bo-ao), wo/wi)
				bound := bi * (pw - 1) / (1 - flb)
				allow := bi*pw*1e-8 + 1 + bound*1e-12
				if ai < bound-allow {
					s.Violate("C03", "in_below_formula_after_minimum_fee", culprit, "%s weights %s/%s, pool fee %s (exact-out): charged %.0f, the formula plus the smallest fee any discount and routing rule allows (%.6f%%) requires at least %.3f (-%.3f allowance)", inst, win, wout, fee, ai, flb*100, bound, allow)
				}
			}
			s.Stats.Probe("swap_checked_fee_aware")
		}
		return
	}
	// oracle pool: value out (at oracle prices in force) never exceeds value in
	ctx := s.Ctx()
	pin := s.N0.App.OracleKeeper.GetAssetPriceFromDenom(ctx, se.in.Denom)
	pout := s.N0.App.OracleKeeper.GetAssetPriceFromDenom(ctx, se.out.Denom)
	if pin.IsZero() || pout.IsZero() {
		s.Violate("C03", "oracle_swap_without_price", culprit, "%s: executed although the oracle has no live price for one side (in=%s out=%s)", inst, pin, pout)
		return
	}
	vin := new(big.Rat).Mul(new(big.Rat).SetInt(bigOf(se.in.Amount)), new(big.Rat).SetFrac(pin.BigInt(), big.NewInt(1)))
	vout := new(big.Rat).Mul(new(big.Rat).SetInt(bigOf(se.out.Amount)), new(big.Rat).SetFrac(pout.BigInt(), big.NewInt(1)))
	oneUnit := new(big.Rat).SetFrac(pout.BigInt(), big.NewInt(1)) // value of one base unit of the output token
	lim := new(big.Rat).Add(vin, oneUnit)
	if vout.Cmp(lim) > 0 {
		s.Violate("C03", "oracle_out_value_exceeds_in", culprit, "%s: value out %s > value in %s at oracle prices in=%s out=%s", inst, vout.FloatString(6), vin.FloatString(6), pin, pout)
	}
	// the same from the pool's own books: everything the pool's address paid to the trading side
	// (sender, recipient) while the swap was in flight - the output and anything else; a rebalancing
	// bonus must come from the treasury, never from the pool - is worth no more than what came in
	{
		total := new(big.Rat)
		allow := new(big.Rat)
		priced := true
		for _, c := range se.poolPaid {
			p := s.N0.App.OracleKeeper.GetAssetPriceFromDenom(ctx, c.Denom)
			if p.IsZero() {
				priced = false
				break
			}
			pr := new(big.Rat).SetFrac(p.BigInt(), big.NewInt(1))
			total.Add(total, new(big.Rat).Mul(new(big.Rat).SetInt(bigOf(c.Amount)), pr))
			allow.Add(allow, new(big.Rat).Mul(pr, big.NewRat(2, 1)))
		}
		if priced && total.Cmp(new(big.Rat).Add(vin, allow)) > 0 {
			s.Violate("C03", "oracle_pool_paid_more_than_received", culprit, "%s: the pool's address paid %s to the trading side while the swap was in flight, worth %s > value in %s at oracle prices (event says out=%s; a bonus may only come from the rebalance treasury)", inst, se.poolPaid, total.FloatString(6), vin.FloatString(6), se.out)
		}
		s.Stats.Probe("swap_checked_oracle_pool_total_outflow")
	}
	if se.bonus.IsPositive() {
		s.Stats.Probe("swap_rebalance_bonus_paid")
	}
	s.Stats.Probe("swap_checked_oracle_pool")
}

func shortAddr(a string) string {
	if len(a) > 10 {
		return a[:8] + "…" + a[len(a)-4:]
	}
	return a
}

// ---------------------------------------------------------------------------
// C04: requests vs settlements

func (m *MonSwaps) matchRequests(s *Sim, eb *ExecBlock, swaps []*swapEvt) {
	culprit := "EndBlock/batch"
	requesters := map[string]bool{}
	for _, r := range m.reqs {
		requesters[r.sender] = true
	}
	// exact-in requests first: their stated input identifies the settlement exactly (amounts are
	// made unique by the workload), whereas a small exact-out amount can coincide with the output
	// of an unrelated exact-in swap of the same sender
	ordered := make([]*swapReq, 0, len(m.reqs))
	for _, r := range m.reqs {
		if r.exactIn {
			ordered = append(ordered, r)
		}
	}
	for _, r := range m.reqs {
		if !r.exactIn {
			ordered = append(ordered, r)
		}
	}
	// Attribution can be ambiguous: one sender may have, in one block, a tiny exact-in request that
	// was dropped at end-block (its limit was not met: legal) and an exact-out request whose first
	// hop happens to charge exactly that input amount. A violation is only a violation if NO
	// attribution of the executed swaps to the requests is consistent (every swap of the sender
	// belongs to a request, each request is void or settled once within its limits). If such an
	// attribution exists it is used; otherwise the greedy one below reports what is wrong.
	shape := func(r *swapReq, chain []*swapEvt) bool {
		n := len(chain)
		for h := 0; h < n; h++ {
			if r.exactIn {
				if chain[h].pool != r.routesIn[h].PoolId || chain[h].out.Denom != r.routesIn[h].TokenOutDenom {
					return false
				}
			} else if chain[h].pool != r.routesOut[h].PoolId || chain[h].in.Denom != r.routesOut[h].TokenInDenom {
				return false
			}
		}
		if r.exactIn {
			return chain[0].in.Equal(r.tokenIn)
		}
		return chain[n-1].out.Equal(r.tokenOut)
	}
	within := func(r *swapReq, chain []*swapEvt) bool {
		last := chain[len(chain)-1]
		if last.recipient != r.recipient {
			return false
		}
		if r.exactIn {
			return !last.out.Amount.LT(r.minOut)
		}
		return !chain[0].in.Amount.GT(r.maxIn)
	}
	bySender := map[string][]*swapReq{}
	var senderOrder []string
	for _, r := range ordered {
		if _, ok := bySender[r.sender]; !ok {
			senderOrder = append(senderOrder, r.sender)
		}
		bySender[r.sender] = append(bySender[r.sender], r)
	}
	preset := map[*swapReq][]*swapEvt{}
	for _, snd := range senderOrder {
		rs := bySender[snd]
		var evs []*swapEvt
		for _, e := range swaps {
			if e.sender == snd {
				evs = append(evs, e)
			}
		}
		if len(rs) > 8 || len(evs) > 16 || os.Getenv("ELYSSIM_GREEDY_MATCH") != "" {
			continue // greedy only
		}
		taken := make([]bool, len(evs))
		choice := make([][]*swapEvt, len(rs))
		var solve func(i int) bool
		solve = func(i int) bool {
			if i == len(rs) {
				for _, t := range taken {
					if !t {
						return false
					}
				}
				return true
			}
			r := rs[i]
			n := len(r.routesIn)
			if !r.exactIn {
				n = len(r.routesOut)
			}
			var free []int
			for j, t := range taken {
				if !t {
					free = append(free, j)
				}
			}
			for k := 0; n > 0 && k+n <= len(free); k++ {
				idx := free[k : k+n]
				chain := make([]*swapEvt, n)
				for h, j := range idx {
					chain[h] = evs[j]
				}
				if !shape(r, chain) || !within(r, chain) {
					continue
				}
				for _, j := range idx {
					taken[j] = true
				}
				choice[i] = chain
				if solve(i + 1) {
					return true
				}
				for _, j := range idx {
					taken[j] = false
				}
				choice[i] = nil
			}
			return solve(i + 1) // void: the request was dropped at end-block
		}
		if solve(0) {
			for i, r := range rs {
				if choice[i] != nil {
					preset[r] = choice[i]
				}
			}
			s.Stats.Probe("swap_requests_attributed_consistently")
		} else {
			s.Stats.Probe("swap_requests_without_consistent_attribution")
		}
	}
	for _, r := range ordered {
		if chain, ok := preset[r]; ok {
			for _, e := range chain {
				e.used = true
				e.exactOut = !r.exactIn
			}
			r.settled++
			m.checkSettlement(s, eb, r, chain)
			s.Stats.Probe("swap_request_settled")
			continue
		}
	}
	for _, r := range ordered {
		if _, ok := preset[r]; ok {
			continue
		}
		n := len(r.routesIn)
		if !r.exactIn {
			n = len(r.routesOut)
		}
		// find chain: n consecutive (among this sender's unused swaps) events following the route
		var mine []*swapEvt
		for _, e := range swaps {
			if e.sender == r.sender && !e.used {
				mine = append(mine, e)
			}
		}
		for i := 0; i+n <= len(mine); i++ {
			chain := mine[i : i+n]
			ok := true
			for h := 0; h < n && ok; h++ {
				if r.exactIn {
					ok = chain[h].pool == r.routesIn[h].PoolId && chain[h].out.Denom == r.routesIn[h].TokenOutDenom
				} else {
					ok = chain[h].pool == r.routesOut[h].PoolId && chain[h].in.Denom == r.routesOut[h].TokenInDenom
				}
			}
			if ok && r.exactIn {
				ok = chain[0].in.Equal(r.tokenIn)
			}
			if ok && !r.exactIn {
				ok = chain[n-1].out.Equal(r.tokenOut)
			}
			if !ok {
				continue
			}
			for _, e := range chain {
				e.used = true
				e.exactOut = !r.exactIn
			}
			r.settled++
			m.checkSettlement(s, eb, r, chain)
			break
		}
		if r.settled == 0 {
			s.Stats.Probe("swap_request_void")
		} else {
			s.Stats.Probe("swap_request_settled")
		}
	}
	// every swap by a requesting account or by any simulated user must belong to a request of THIS block
	for _, e := range swaps {
		if e.used {
			continue
		}
		if requesters[e.sender] || s.W.ByAddr[e.sender] != nil {
			if debugC04 {
				for _, r := range m.reqs {
					fmt.Printf("DEBUG req tx=%d exactIn=%v sender=%s rcpt=%s in=%s min=%s out=%s max=%s settled=%d\n", r.tx, r.exactIn, shortAddr(r.sender), shortAddr(r.recipient), r.tokenIn, r.minOut, r.tokenOut, r.maxIn, r.settled)
				}
				for _, x := range swaps {
					fmt.Printf("DEBUG swap pool=%d sender=%s rcpt=%s in=%s out=%s used=%v\n", x.pool, shortAddr(x.sender), shortAddr(x.recipient), x.in, x.out, x.used)
				}
			}
			s.Violate("C04", "settlement_without_request", culprit, "height %d: swap %s -> %s on pool %d debited %s although no request accepted in this block explains it (executed twice, or a request lingering from an earlier block); requests of this block: %d", eb.Height, e.in, e.out, e.pool, shortAddr(e.sender), len(m.reqs))
		}
	}
	// ledger cross-check: end-block balance changes of the accounts involved are exactly the
	// matched settlements (plus rebalancing bonuses paid by pool treasuries)
	type key struct{ addr, denom string }
	want := map[key]sdkmath.Int{}
	add := func(a, d string, v sdkmath.Int) {
		k := key{a, d}
		cur, ok := want[k]
		if !ok {
			cur = sdkmath.ZeroInt()
		}
		want[k] = cur.Add(v)
	}
	involved := map[string]bool{}
	for _, r := range m.reqs {
		involved[r.sender] = true
		involved[r.recipient] = true
	}
	for _, e := range swaps {
		if !e.used {
			continue
		}
		add(e.sender, e.in.Denom, e.in.Amount.Neg())
		add(e.recipient, e.out.Denom, e.out.Amount.Add(e.bonus))
		involved[e.recipient] = true
	}
	// amm counterparties: pool addresses and pool rebalance treasuries
	ammAddr := map[string]bool{}
	for _, p := range s.Snap().Pools {
		ammAddr[p.Address] = true
		ammAddr[p.RebalanceTreasury] = true
	}
	for a := range involved {
		if s.W.ByAddr[a] == nil {
			continue // module / escrow addresses have other end-block flows
		}
		// net end-block flow between this account and the amm (other modules, e.g. distribution
		// paying staking rewards in the staking end blocker, are not swap settlements)
		got := map[string]sdkmath.Int{}
		for i := range s.Ledger.Moves {
			mv := &s.Ledger.Moves[i]
			if mv.Phase != "end" || mv.Kind != "transfer" {
				continue
			}
			if mv.Addr == a && ammAddr[mv.From] {
				for _, c := range mv.Coins {
					got[c.Denom] = zeroIfNil(got, c.Denom).Add(c.Amount)
				}
			}
			if mv.From == a && ammAddr[mv.Addr] {
				for _, c := range mv.Coins {
					got[c.Denom] = zeroIfNil(got, c.Denom).Sub(c.Amount)
				}
			}
		}
		denoms := map[string]bool{}
		for d := range got {
			denoms[d] = true
		}
		for k := range want {
			if k.addr == a {
				denoms[k.denom] = true
			}
		}
		for d := range denoms {
			g := zeroIfNil(got, d)
			w, ok := want[key{a, d}]
			if !ok {
				w = sdkmath.ZeroInt()
			}
			if !g.Equal(w) {
				s.Violate("C04", "balance_change_not_explained", culprit, "height %d: end-of-block flow between %s and the amm in %s is %s, the matched swap settlements explain %s", eb.Height, shortAddr(a), d, g, w)
			}
		}
	}
}

func (m *MonSwaps) checkSettlement(s *Sim, eb *ExecBlock, r *swapReq, chain []*swapEvt) {
	culprit := "EndBlock/batch"
	n := len(chain)
	last := chain[n-1]
	desc := fmt.Sprintf("request of tx %d by %s (recipient %s, exactIn=%v, hops=%d)", r.tx, shortAddr(r.sender), shortAddr(r.recipient), r.exactIn, n)
	if r.settled > 1 {
		s.Violate("C04", "executed_twice", culprit, "%s settled %d times", desc, r.settled)
	}
	if last.recipient != r.recipient {
		s.Violate("C04", "wrong_recipient", culprit, "%s: output %s credited to %s", desc, last.out, shortAddr(last.recipient))
	}
	if r.exactIn {
		if last.out.Amount.LT(r.minOut) {
			s.Violate("C04", "below_min_out", culprit, "%s: credited %s < stated minimum %s", desc, last.out, r.minOut)
		}
	} else {
		if chain[0].in.Amount.GT(r.maxIn) {
			s.Violate("C04", "above_max_in", culprit, "%s: debited %s > stated maximum %s", desc, chain[0].in, r.maxIn)
		}
		if !last.out.Equal(r.tokenOut) {
			s.Violate("C04", "wrong_out_amount", culprit, "%s: credited %s, stated output %s", desc, last.out, r.tokenOut)
		}
	}
	// net effect of the whole route: sender is debited only the input denom, recipient credited
	// only the final output denom; intermediate hops must net to zero
	type key struct{ addr, denom string }
	net := map[key]sdkmath.Int{}
	add := func(a, d string, v sdkmath.Int) {
		k := key{a, d}
		cur, ok := net[k]
		if !ok {
			cur = sdkmath.ZeroInt()
		}
		net[k] = cur.Add(v)
	}
	for _, e := range chain {
		add(e.sender, e.in.Denom, e.in.Amount.Neg())
		add(e.recipient, e.out.Denom, e.out.Amount)
	}
	inDenom := chain[0].in.Denom
	outDenom := last.out.Denom
	for k, v := range net {
		if v.IsZero() {
			continue
		}
		okEntry := (k.addr == r.sender && k.denom == inDenom && v.IsNegative()) || (k.addr == r.recipient && k.denom == outDenom && v.IsPositive())
		if r.sender == r.recipient && k.addr == r.sender && (k.denom == inDenom || k.denom == outDenom) {
			okEntry = true
		}
		// the statement bounds what the sender is DEBITED and what the recipient is credited at
		// least; a positive remainder of an intermediate hop returned to the sender or passed on
		// to the recipient (multi-hop exact-out over-estimates the intermediate amount) takes
		// nothing from anyone beyond the stated input
		if v.IsPositive() && (k.addr == r.sender || k.addr == r.recipient) {
			okEntry = true
		}
		if !okEntry {
			what := "credited"
			if v.IsNegative() {
				what = "debited"
			}
			s.Violate("C04", "side_effect_beyond_request", culprit, "%s: %s is %s %s%s on its behalf, which the request does not state (input %s, output %s)", desc, shortAddr(k.addr), what, v.Abs(), k.denom, inDenom, outDenom)
		}
	}
	if n > 1 {
		s.Stats.Probe("multihop_request_settled")
		if r.sender != r.recipient {
			s.Stats.Probe("multihop_request_settled_recipient_differs")
		}
	}
	_ = strings.Join
}
