package main

import (
	"time"
	"os"
	"fmt"
	"math"
	"math/big"
	"strings"

	sdkmath "cosmossdk.io/math"
	sdk "github.com/cosmos/cosmos-sdk/types"
	authtypes "github.com/cosmos/cosmos-sdk/x/auth/types"

	ammtypes "github.com/elys-network/elys/x/amm/types"
	leveragelptypes "github.com/elys-network/elys/x/leveragelp/types"
	stablestaketypes "github.com/elys-network/elys/x/stablestake/types"
)

// ---------------------------------------------------------------------------
// C05 — joining and exiting cannot extract value from other LPs
//
// At every observation point (after begin-block+ante, after each successful
// transaction, at the block boundary) the per-share value of every pool is
// recorded. Whenever a step changed a pool's share supply (direct join/exit,
// leveraged-LP open/close, liquidation in the begin-block sweep) the per-share
// value of the liquidity left behind must not have decreased.

type poolVal struct {
	shares  sdkmath.Int
	logV    float64 // constant-product pools: sum w_i ln B_i / sum w  (ln of the weighted geometric mean)
	tvl     *big.Rat // oracle pools: value of accounted balances at oracle prices
	tvlRaw  *big.Rat // oracle pools: value of the raw reserves at oracle prices
	oracle  bool
	minRes  sdkmath.Int
	resSum  float64 // sum of 1/B_i: relative effect of one base unit per asset
	unitVal *big.Rat
	priced  bool
	desc    string
	accPos  string // per asset: does the chain value it on the accounted balance ('a') or fall back to the raw reserve ('r')
}

type MonC05 struct {
	sim  *Sim
	last map[uint64]*poolVal
}

func newMonC05(s *Sim) *MonC05 { return &MonC05{sim: s, last: map[uint64]*poolVal{}} }

func (m *MonC05) Name() string { return "C05" }
func (m *MonC05) AtEnd(s *Sim)  {}

func (m *MonC05) measure(ctx sdk.Context) map[uint64]*poolVal {
	app := m.sim.N0.App
	out := map[uint64]*poolVal{}
	for _, p := range app.AmmKeeper.GetAllPool(ctx) {
		v := &poolVal{shares: p.TotalShares.Amount, oracle: p.PoolParams.UseOracle, tvl: new(big.Rat), tvlRaw: new(big.Rat), unitVal: new(big.Rat), priced: true}
		wsum := 0.0
		for _, a := range p.PoolAssets {
			w, _ := new(big.Float).SetInt(a.Weight.BigInt()).Float64()
			wsum += w
		}
		v.minRes = p.PoolAssets[0].Token.Amount
		for _, a := range p.PoolAssets {
			b, _ := new(big.Float).SetInt(a.Token.Amount.BigInt()).Float64()
			w, _ := new(big.Float).SetInt(a.Weight.BigInt()).Float64()
			if b > 0 {
				v.logV += w / wsum * math.Log(b)
				v.resSum += 1 / b
			}
			if a.Token.Amount.LT(v.minRes) {
				v.minRes = a.Token.Amount
			}
			// "a reserve taken to zero" is judged on what the pool's address really holds as well: a
			// record that was not updated would hide it (F22)
			if addr, err := sdk.AccAddressFromBech32(p.Address); err == nil {
				if b := app.BankKeeper.GetBalance(ctx, addr, a.Token.Denom).Amount; b.LT(v.minRes) {
					v.minRes = b
				}
			}
			if p.PoolParams.UseOracle {
				bal := a.Token.Amount
				if acc := app.AccountedPoolKeeper.GetAccountedBalance(ctx, p.PoolId, a.Token.Denom); acc.IsPositive() {
					bal = acc
					v.accPos += "a"
				} else {
					v.accPos += "r"
				}
				price := app.OracleKeeper.GetAssetPriceFromDenom(ctx, a.Token.Denom)
				if price.IsZero() {
					v.priced = false
				}
				pr := new(big.Rat).SetFrac(price.BigInt(), big.NewInt(1))
				v.tvl.Add(v.tvl, new(big.Rat).Mul(new(big.Rat).SetInt(bal.BigInt()), pr))
				v.tvlRaw.Add(v.tvlRaw, new(big.Rat).Mul(new(big.Rat).SetInt(a.Token.Amount.BigInt()), pr))
				v.unitVal.Add(v.unitVal, pr)
			}
		}
		v.desc = fmt.Sprintf("shares=%s assets=%s", p.TotalShares.Amount, poolAssetsString(p))
		if p.PoolParams.UseOracle {
			for _, a := range p.PoolAssets {
				v.desc += fmt.Sprintf(" acc(%s)=%s", shortDenom(a.Token.Denom), app.AccountedPoolKeeper.GetAccountedBalance(ctx, p.PoolId, a.Token.Denom))
			}
		}
		out[p.PoolId] = v
	}
	return out
}

func poolAssetsString(p ammtypes.Pool) string {
	s := ""
	for i, a := range p.PoolAssets {
		if i > 0 {
			s += ","
		}
		s += a.Token.String() + "/w" + a.Weight.String()
	}
	return s
}

// basisOf tells, per pool, which balance basis the share-changing messages of a transaction
// are priced against on an oracle pool: "single" (one-asset join, one-asset exit, every
// leveraged-LP open/close: accounted balances), "prop" (all-asset join/exit: raw reserves),
// "mixed" when both kinds - or messages that move perpetual liabilities/custody - touch the
// pool in one step.
func basisOf(t *ExecTx) map[uint64]string {
	out := map[uint64]string{}
	set := func(id uint64, k string) {
		if cur, ok := out[id]; ok && cur != k {
			out[id] = "mixed"
		} else {
			out[id] = k
		}
	}
	all := false
	for _, msg := range flattenMsgs(t.Spec.Msgs) {
		switch x := msg.(type) {
		case *ammtypes.MsgJoinPool:
			if len(x.MaxAmountsIn) == 1 {
				set(x.PoolId, "single")
			} else {
				set(x.PoolId, "prop")
			}
		case *ammtypes.MsgExitPool:
			if x.TokenOutDenom != "" {
				set(x.PoolId, "single")
			} else {
				set(x.PoolId, "prop")
			}
		case *leveragelptypes.MsgOpen:
			set(x.AmmPoolId, "single")
		case *leveragelptypes.MsgClose, *leveragelptypes.MsgClosePositions:
			all = true // pool known only through the position: every pool not named otherwise
		default:
			u := sdk.MsgTypeURL(msg)
			if strings.HasPrefix(u, "/elys.perpetual.") || strings.HasPrefix(u, "/elys.tradeshield.") {
				out[0] = "mixed" // liabilities / custody may move in the same step
			}
		}
	}
	if out[0] == "mixed" {
		return map[uint64]string{0: "mixed"}
	}
	if all {
		out[0] = "single"
	}
	return out
}

func (m *MonC05) observe(ctx sdk.Context, step string, basis map[uint64]string) {
	s := m.sim
	now := m.measure(ctx)
	for id, v := range now {
		prev := m.last[id]
		if prev == nil || prev.shares.Equal(v.shares) {
			continue
		}
		kind := "join"
		if v.shares.LT(prev.shares) {
			kind = "exit"
		}
		if !v.oracle {
			sp, _ := new(big.Float).SetInt(prev.shares.BigInt()).Float64()
			sn, _ := new(big.Float).SetInt(v.shares.BigInt()).Float64()
			before := prev.logV - math.Log(sp)
			after := v.logV - math.Log(sn)
			// allowance: one base unit per asset (relative effect sum 1/B_i, before and after),
			// 1e-8 relative for single-asset joins of weighted pools (power approximation), float noise
			tol := 2*(prev.resSum+v.resSum) + 1e-11
			if kind == "join" {
				tol += 1e-8
			}
			if after < before-tol {
				s.Violate("C05", "cp_value_per_share_decreased_on_"+kind, step, "pool %d: ln(invariant per share) fell from %.12f to %.12f (allowance %.3g) across a %s; before {%s} after {%s}", id, before, after, tol, kind, prev.desc, v.desc)
			}
			s.Stats.Probe(kind + "_checked")
		} else if prev.priced && v.priced {
			// Value per share at oracle prices must not decrease beyond one base unit per asset.
			// Two balance bases exist for oracle pools: the raw reserves (what all-asset joins and
			// exits are priced against) and the accounted balances (reserve + perpetual liabilities
			// - custody, what single-asset operations and TVL are priced against). A proportional
			// join/exit leaves the raw per-share value unchanged but moves the accounted one by
			// design whenever liabilities != custody, so value is only "extracted" when the
			// per-share value falls under BOTH bases.
			fell := func(after, before *big.Rat) bool {
				lhs := new(big.Rat).Mul(after, new(big.Rat).SetInt(prev.shares.BigInt())) // value_after * shares_before
				rhs := new(big.Rat).Mul(before, new(big.Rat).SetInt(v.shares.BigInt()))   // value_before * shares_after
				allow := new(big.Rat).Mul(v.unitVal, new(big.Rat).SetInt(prev.shares.BigInt()))
				allow.Mul(allow, big.NewRat(2, 1)) // one unit of each asset, before and after
				// plus a relative 1e-9 for Dec (18 decimals) truncation inside the share computation
				allow.Add(allow, new(big.Rat).Mul(rhs, big.NewRat(1, 1_000_000_000)))
				return new(big.Rat).Add(lhs, allow).Cmp(rhs) < 0
			}
			bs, ok := basis[id]
			if !ok {
				bs = basis[0] // default of the step
			}
			if bs == "" {
				bs = "mixed"
			}
			if prev.accPos != v.accPos {
				// The chain values an asset on its accounted balance only while that is positive and
				// falls back to the raw reserve otherwise (all of the reserve is traders' custody). A
				// step across that switch changes the valuation rule itself, so the accounted figure
				// before and after are not comparable: weak rule.
				bs = "mixed"
				s.Stats.Probe("join_or_exit_across_accounted_fallback_switch")
			}
			fa, fr := fell(v.tvl, prev.tvl), fell(v.tvlRaw, prev.tvlRaw)
			if os.Getenv("ELYSSIM_DEBUG_C05") != "" {
				fmt.Printf("DEBUGC05 h=%d step=%s pool=%d kind=%s basis=%s shares %s -> %s tvlAcc %s -> %s tvlRaw %s -> %s fellAcc=%v fellRaw=%v\n  before {%s}\n  after  {%s}\n", ctx.BlockHeight(), step, id, kind, bs, prev.shares, v.shares, prev.tvl.FloatString(3), v.tvl.FloatString(3), prev.tvlRaw.FloatString(3), v.tvlRaw.FloatString(3), fa, fr, prev.desc, v.desc)
			}
			bad, which := false, ""
			switch bs {
			case "single":
				bad, which = fa, "accounted balances, the basis one-asset operations are priced against"
			case "prop":
				bad, which = fr, "raw reserves, the basis all-asset operations are priced against"
			default:
				bad, which = fa && fr, "raw reserves; the accounted-balance value fell as well"
			}
			if bad {
				num, prevNum := v.tvlRaw, prev.tvlRaw
				if bs == "single" {
					num, prevNum = v.tvl, prev.tvl
				}
				b, _ := new(big.Rat).Quo(prevNum, new(big.Rat).SetInt(prev.shares.BigInt())).Float64()
				a, _ := new(big.Rat).Quo(num, new(big.Rat).SetInt(v.shares.BigInt())).Float64()
				s.Violate("C05", "oracle_value_per_share_decreased_on_"+kind, step, "pool %d: value per share at oracle prices fell from %.12g to %.12g (relative %.3g; %s) across a %s; before {%s} after {%s}", id, b, a, (a-b)/b, which, kind, prev.desc, v.desc)
			}
			s.Stats.Probe(kind + "_checked_oracle_pool_basis_" + bs)
			s.Stats.Probe(kind + "_checked")
			s.Stats.Probe(kind + "_checked_oracle_pool")
		}
	}
	for id, v := range now {
		prev := m.last[id]
		if prev == nil || !prev.shares.GT(v.shares) {
			continue // only an exit is in scope ("an exit can never take a reserve to zero or burn all shares")
		}
		if (!v.minRes.IsPositive() && prev.minRes.IsPositive()) || !v.shares.IsPositive() {
			s.Violate("C05", "pool_emptied_by_exit", step, "pool %d: an exit took a reserve or the share supply to zero: before {%s} after {%s}", id, prev.desc, v.desc)
		}
	}
	m.last = now
}

func (m *MonC05) PreTx(ctx sdk.Context, t *ExecTx) {
	// share supply changes before the first message of a block come from the leveraged-LP sweep only
	m.observe(ctx, "BeginBlock(+ante)", map[uint64]string{0: "single"})
}
func (m *MonC05) PostTx(ctx sdk.Context, t *ExecTx) {
	m.observe(ctx, txStep(t), basisOf(t))
}
func (m *MonC05) AfterBlock(s *Sim, eb *ExecBlock) {
	m.observe(s.Ctx(), "EndBlock", map[uint64]string{0: "mixed"})
	// not under the edge-case governance agent (C18 profile): fee parameters pushed to their limits
	// and converted pools are outside C05's quantifier
	if eb.Height%29 == 0 && s.Cfg.rate("govedge") == 0 {
		m.roundTrips(s)
	}
}

// roundTrips: "with prices unchanged, joining and then exiting (any mix of all-asset and
// single-asset forms) returns at most what was deposited". On a discarded branch of the committed
// state a funded account joins every oracle pool with one asset, the clock moves past the share
// lock, and the same account exits with all the shares it got - once in the all-asset and once in
// the one-asset form. Nothing else happens in between and the oracle prices are the same, so what
// comes back must not be worth more than what went in (two base units per asset of rounding).
func (m *MonC05) roundTrips(s *Sim) {
	app := s.N0.App
	base := s.Ctx()
	u := s.W.Users[len(s.W.Users)-1]
	for _, p := range app.AmmKeeper.GetAllPool(base) {
		if !p.PoolParams.UseOracle {
			continue
		}
		for _, form := range []string{"all-asset", "one-asset"} {
			func() {
				defer func() { _ = recover() }()
				ctx, _ := base.CacheContext()
				ctx = ctx.WithEventManager(sdk.NewEventManager())
				inDenom := p.PoolAssets[int(s.Height/29)%2].Token.Denom
				amt := reserveOf(p, inDenom).QuoRaw(50)
				if bal := app.BankKeeper.GetBalance(ctx, u.Addr, inDenom).Amount; bal.LT(amt) {
					amt = bal
				}
				if !amt.IsPositive() {
					return
				}
				price := func(d string) *big.Rat {
					return new(big.Rat).SetFrac(app.OracleKeeper.GetAssetPriceFromDenom(ctx, d).BigInt(), big.NewInt(1))
				}
				if price(p.PoolAssets[0].Token.Denom).Sign() == 0 || price(p.PoolAssets[1].Token.Denom).Sign() == 0 {
					return
				}
				before := app.BankKeeper.GetAllBalances(ctx, u.Addr)
				_, shares, err := app.AmmKeeper.JoinPoolNoSwap(ctx, u.Addr, p.PoolId, sdkmath.OneInt(), sdk.NewCoins(sdk.NewCoin(inDenom, amt)))
				if err != nil || !shares.IsPositive() {
					return
				}
				later := ctx.WithBlockTime(ctx.BlockTime().Add(2 * time.Hour))
				out := ""
				if form == "one-asset" {
					out = inDenom
				}
				if _, err := app.AmmKeeper.ExitPool(later, u.Addr, p.PoolId, shares, sdk.Coins{}, out, false); err != nil {
					return
				}
				after := app.BankKeeper.GetAllBalances(later, u.Addr)
				vin, vout, allow := new(big.Rat), new(big.Rat), new(big.Rat)
				for _, a := range p.PoolAssets {
					d := a.Token.Denom
					pr := price(d)
					delta := new(big.Int).Sub(after.AmountOf(d).BigInt(), before.AmountOf(d).BigInt())
					if delta.Sign() < 0 {
						vin.Add(vin, new(big.Rat).Mul(new(big.Rat).SetInt(new(big.Int).Neg(delta)), pr))
					} else {
						vout.Add(vout, new(big.Rat).Mul(new(big.Rat).SetInt(delta), pr))
					}
					allow.Add(allow, new(big.Rat).Mul(pr, big.NewRat(2, 1)))
				}
				s.Stats.Probe("join_exit_round_trip_checked_" + form)
				if vout.Cmp(new(big.Rat).Add(vin, allow)) > 0 {
					gain := new(big.Rat).Sub(vout, vin)
					rel, _ := new(big.Rat).Quo(gain, new(big.Rat).Mul(new(big.Rat).SetInt(amt.BigInt()), price(inDenom))).Float64()
					s.Violate("C05", "round_trip_gain_one_asset_join_"+form+"_exit", "round-trip probe", "pool %d at height %d: joining with %s%s and exiting (%s form) with the %s shares received, prices unchanged, returns %.4g of the deposit more than was put in (net out %s > net in %s at oracle prices)", p.PoolId, s.Height, amt, inDenom, form, shares, rel, vout.FloatString(0), vin.FloatString(0))
				}
			}()
		}
	}
}

// ---------------------------------------------------------------------------
// C07 — fair vault share price; lending capped at 90 %

type vaultSnap struct {
	tv, supply, cash sdkmath.Int
	debt             sdkmath.Int // sum of principal
}

type MonC07 struct {
	sim      *Sim
	last     *vaultSnap
	lastBond map[string]*bondRec // per account: last bond of this block (round-trip check)
}

type bondRec struct {
	height int64
	x      sdkmath.Int // deposited
	shares sdkmath.Int
	tvAt   sdkmath.Int // TotalValue right after the bond (no accrual in between if unchanged apart from the unbond)
}

func newMonC07(s *Sim) *MonC07 { return &MonC07{sim: s, lastBond: map[string]*bondRec{}} }

func (m *MonC07) Name() string { return "C07" }
func (m *MonC07) AtEnd(s *Sim)  {}

func (m *MonC07) snap(ctx sdk.Context) *vaultSnap {
	app := m.sim.N0.App
	p := app.StablestakeKeeper.GetParams(ctx)
	v := &vaultSnap{tv: p.TotalValue, supply: app.BankKeeper.GetSupply(ctx, stablestaketypes.GetShareDenom()).Amount,
		cash: app.BankKeeper.GetBalance(ctx, authtypes.NewModuleAddress(stablestaketypes.ModuleName), p.DepositDenom).Amount, debt: sdkmath.ZeroInt()}
	for _, d := range app.StablestakeKeeper.GetAllDebts(ctx) {
		v.debt = v.debt.Add(d.Borrowed)
	}
	return v
}

func ratOf(i sdkmath.Int) *big.Rat { return new(big.Rat).SetInt(i.BigInt()) }

// rate returns TotalValue/supply (1 when no shares exist).
func (v *vaultSnap) rate() *big.Rat {
	if !v.supply.IsPositive() {
		return big.NewRat(1, 1)
	}
	return new(big.Rat).Quo(ratOf(v.tv), ratOf(v.supply))
}

func ceilRat(r *big.Rat) *big.Rat {
	q := new(big.Int).Quo(r.Num(), r.Denom())
	if new(big.Int).Mul(q, r.Denom()).Cmp(r.Num()) != 0 {
		q.Add(q, big.NewInt(1))
	}
	if q.Sign() <= 0 {
		q = big.NewInt(1)
	}
	return new(big.Rat).SetInt(q)
}

func (m *MonC07) PreTx(ctx sdk.Context, t *ExecTx) {
	m.step(ctx, nil, "BeginBlock(+ante)")
}

func (m *MonC07) PostTx(ctx sdk.Context, t *ExecTx) { m.step(ctx, t, txStep(t)) }

func (m *MonC07) AfterBlock(s *Sim, eb *ExecBlock) {
	m.step(s.Ctx(), nil, "EndBlock")
	m.lastBond = map[string]*bondRec{}
}

func (m *MonC07) step(ctx sdk.Context, t *ExecTx, step string) {
	s := m.sim
	now := m.snap(ctx)
	prev := m.last
	m.last = now
	if prev == nil {
		return
	}
	rPre, rPost := prev.rate(), now.rate()
	oneShare := ceilRat(rPre) // one share's worth, in deposit-token base units
	var bond *stablestaketypes.MsgBond
	var unbond *stablestaketypes.MsgUnbond
	if t != nil {
		msgs := flattenMsgs(t.Spec.Msgs)
		if len(msgs) == 1 {
			switch x := msgs[0].(type) {
			case *stablestaketypes.MsgBond:
				bond = x
			case *stablestaketypes.MsgUnbond:
				unbond = x
			}
		}
	}
	switch {
	case bond != nil:
		minted := now.supply.Sub(prev.supply)
		// (a) the depositor's new shares are not worth more than the deposit (+ one share's worth)
		worth := new(big.Rat).Mul(ratOf(minted), rPre)
		lim := new(big.Rat).Add(ratOf(bond.Amount), oneShare)
		if worth.Cmp(lim) > 0 {
			s.Violate("C07", "bond_overissues_shares", step, "bond of %s minted %s shares worth %s at the pre-deposit rate %s (allowance one share = %s)", bond.Amount, minted, worth.FloatString(3), rPre.FloatString(9), oneShare.FloatString(0))
		}
		// (b) what the pre-existing shares redeem for does not drop (beyond one share's worth)
		if prev.supply.IsPositive() {
			before := ratOf(prev.tv)
			after := new(big.Rat).Mul(ratOf(prev.supply), rPost)
			if new(big.Rat).Add(after, oneShare).Cmp(before) < 0 {
				s.Violate("C07", "bond_dilutes_others", step, "bond of %s: the %s pre-existing shares redeemed for %s before and %s after", bond.Amount, prev.supply, before.FloatString(3), after.FloatString(3))
			}
		}
		m.lastBond[bond.Creator] = &bondRec{height: ctx.BlockHeight(), x: bond.Amount, shares: minted, tvAt: now.tv}
		s.Stats.Probe("bond_checked")
	case unbond != nil:
		burned := prev.supply.Sub(now.supply)
		paid := prev.cash.Sub(now.cash)
		// (a) the withdrawal pays no more than the shares' pro-rata claim (+ one share's worth)
		claim := new(big.Rat).Mul(ratOf(burned), rPre)
		if ratOf(paid).Cmp(new(big.Rat).Add(claim, oneShare)) > 0 {
			s.Violate("C07", "unbond_overpays", step, "unbond of %s shares paid %s, pro-rata claim %s at rate %s", burned, paid, claim.FloatString(3), rPre.FloatString(9))
		}
		// (b) the remaining holders' redemption value does not drop (beyond one share's worth)
		if now.supply.IsPositive() {
			before := new(big.Rat).Mul(ratOf(now.supply), rPre)
			after := ratOf(now.tv)
			if new(big.Rat).Add(after, oneShare).Cmp(before) < 0 {
				s.Violate("C07", "unbond_hurts_others", step, "unbond of %s shares: the remaining %s shares redeemed for %s before and %s after", burned, now.supply, before.FloatString(3), after.FloatString(3))
			}
		}
		// (c) deposit then immediately withdraw the very shares received: at most the deposit back
		if lb := m.lastBond[unbond.Creator]; lb != nil && lb.height == ctx.BlockHeight() && lb.shares.Equal(burned) && lb.tvAt.Equal(prev.tv) {
			if ratOf(paid).Cmp(new(big.Rat).Add(ratOf(lb.x), oneShare)) > 0 {
				s.Violate("C07", "round_trip_gain", step, "bond %s then immediate unbond of the %s shares received returned %s (allowance one share = %s)", lb.x, burned, paid, oneShare.FloatString(0))
			}
			s.Stats.Probe("bond_unbond_round_trip_checked")
		}
		delete(m.lastBond, unbond.Creator)
		s.Stats.Probe("unbond_checked")
	default:
		// any other step (interest accrual, borrow, repay, liquidation, blockers): a share's
		// redemption value never falls
		if prev.supply.IsPositive() && now.supply.IsPositive() && rPost.Cmp(rPre) < 0 {
			s.Violate("C07", "rate_fell", step, "redemption value of a share fell from %s to %s (TotalValue %s -> %s, supply %s -> %s) in a step that is neither a bond nor an unbond", rPre.FloatString(12), rPost.FloatString(12), prev.tv, now.tv, prev.supply, now.supply)
		}
	}
	// 90 % cap: a step that increased outstanding principal must leave loans <= 90 % of the vault's value
	if now.debt.GT(prev.debt) {
		out := now.tv.Sub(now.cash)
		if out.MulRaw(10).GT(now.tv.MulRaw(9)) {
			s.Violate("C07", "borrow_above_cap", step, "after a borrow outstanding loans %s exceed 90%% of the vault value %s (sum of principal %s)", out, now.tv, now.debt)
		}
		s.Stats.Probe("borrow_cap_checked")
		if out.MulRaw(100).GT(now.tv.MulRaw(80)) {
			s.Stats.Probe("borrow_near_cap")
		}
	}
}

func shortDenom(d string) string {
	if len(d) > 10 {
		return d[:8] + "…"
	}
	return d
}
