package main

import (
	"fmt"
	"strings"

	sdkmath "cosmossdk.io/math"
	sdk "github.com/cosmos/cosmos-sdk/types"

	commitmenttypes "github.com/elys-network/elys/x/commitment/types"
)

// ---------------------------------------------------------------------------
// C14 — a vesting schedule releases exactly its total, monotonically
//
// Reference model in integers, applied per transaction (exact pre/post state of
// the transaction through the ante/post wrappers).

type vestEntry struct {
	Denom          string
	Total, Claimed sdkmath.Int
	Start, N       int64
}

type vestInfo struct {
	vestingDenom string
	numBlock     int64
	factor       sdkmath.Int
	maxVest      int64
}

type vestSnap struct {
	entries []vestEntry
	eden    sdkmath.Int            // claimed (liquid) Eden in the commitment ledger
	bal     map[string]sdkmath.Int // bank balances of the owner (all denoms)
	supply  map[string]sdkmath.Int // supply of every denom
	height  int64
	infos   map[string]vestInfo // by base denom
	vestNow bool
}

type MonC14 struct {
	sim  *Sim
	pre  map[int]*vestSnap // by tx index
	in   map[string]sdkmath.Int
	out  map[string]sdkmath.Int // released uelys
	back map[string]sdkmath.Int // Eden returned by cancel
}

func newMonC14(s *Sim) *MonC14 {
	return &MonC14{sim: s, pre: map[int]*vestSnap{}, in: map[string]sdkmath.Int{}, out: map[string]sdkmath.Int{}, back: map[string]sdkmath.Int{}}
}

func (m *MonC14) Name() string { return "C14" }
func (m *MonC14) AtEnd(s *Sim)  { m.drain(s, "end_of_run") }

// drain: two clauses of C14 that agents' own claims only sample - "claiming what has vested always
// succeeds" and "[the cumulative amount released] equals the total once the schedule has elapsed".
// For EVERY account that holds vesting entries (whether or not its owner is claiming in this
// history), on discarded branches of the committed state: (a) a claim now must succeed; (b) with the
// height moved past the end of every one of its schedules a single claim must succeed, pay exactly
// the unreleased remainder of every entry (sum of total - released, per denom) and leave no entry
// behind. Module accounts (the provider-rewards account vests through a hook and cannot receive
// through a message) are skipped.
func (m *MonC14) drain(s *Sim, when string) {
	app := s.N0.App
	base := s.Ctx()
	for _, cm := range app.CommitmentKeeper.GetAllCommitments(base) {
		if len(cm.VestingTokens) == 0 {
			continue
		}
		addr, err := sdk.AccAddressFromBech32(cm.Creator)
		if err != nil || app.BankKeeper.BlockedAddr(addr) {
			continue
		}
		end := base.BlockHeight()
		want := map[string]sdkmath.Int{}
		for _, v := range cm.VestingTokens {
			if e := v.StartBlock + v.NumBlocks; e > end {
				end = e
			}
			want[v.Denom] = zeroIfNil(want, v.Denom).Add(v.TotalAmount.Sub(v.ClaimedAmount))
		}
		for _, elapsed := range []bool{false, true} {
			ctx, _ := base.CacheContext()
			ctx = ctx.WithEventManager(sdk.NewEventManager())
			if elapsed {
				ctx = ctx.WithBlockHeight(end + 1 + int64(len(cm.VestingTokens)))
			}
			before := app.BankKeeper.GetAllBalances(ctx, addr)
			err := func() (err error) {
				defer func() {
					if rec := recover(); rec != nil {
						err = fmt.Errorf("panic: %v", rec)
					}
				}()
				_, err = app.CommitmentKeeper.ClaimVesting(ctx, &commitmenttypes.MsgClaimVesting{Sender: cm.Creator})
				return err
			}()
			if err != nil {
				s.Violate("C14", "claim_failed_in_probe", "drain/"+when, "%s: a claim at height %d (schedule elapsed on the branch: %v) fails: %v; entries: %s", shortAddr(cm.Creator), ctx.BlockHeight(), elapsed, err, fmtVesting(cm.VestingTokens))
				break
			}
			s.Stats.Probe("vesting_claim_probe_ok")
			if !elapsed {
				continue
			}
			after := app.BankKeeper.GetAllBalances(ctx, addr)
			for d, w := range want {
				if got := after.AmountOf(d).Sub(before.AmountOf(d)); !got.Equal(w) {
					s.Violate("C14", "elapsed_schedule_does_not_release_total", "drain/"+when, "%s: with every schedule elapsed (branch height %d) a claim released %s %s, the unreleased remainder of the entries is %s; entries: %s", shortAddr(cm.Creator), ctx.BlockHeight(), got, d, w, fmtVesting(cm.VestingTokens))
				}
			}
			if left := app.CommitmentKeeper.GetCommitments(ctx, addr).VestingTokens; len(left) != 0 {
				s.Violate("C14", "entry_left_after_elapsed_claim", "drain/"+when, "%s: %d vesting entries remain after a claim past the end of every schedule: %s", shortAddr(cm.Creator), len(left), fmtVesting(left))
			}
			s.Stats.Probe("vesting_elapsed_schedule_checked")
		}
	}
}

func fmtVesting(vs []*commitmenttypes.VestingTokens) string {
	out := ""
	for _, v := range vs {
		out += fmt.Sprintf("{%s total=%s released=%s start=%d blocks=%d} ", v.Denom, v.TotalAmount, v.ClaimedAmount, v.StartBlock, v.NumBlocks)
	}
	return out
}

func vestingMsgOwner(msg sdk.Msg) (string, bool) {
	switch x := msg.(type) {
	case *commitmenttypes.MsgVest:
		return x.Creator, true
	case *commitmenttypes.MsgVestLiquid:
		return x.Creator, true
	case *commitmenttypes.MsgCancelVest:
		return x.Creator, true
	case *commitmenttypes.MsgClaimVesting:
		return x.Sender, true
	case *commitmenttypes.MsgVestNow:
		return x.Creator, true
	}
	return "", false
}

func (m *MonC14) snap(ctx sdk.Context, owner string) *vestSnap {
	app := m.sim.N0.App
	addr := sdk.MustAccAddressFromBech32(owner)
	cm := app.CommitmentKeeper.GetCommitments(ctx, addr)
	sn := &vestSnap{eden: cm.GetClaimedForDenom(DenomEDEN), bal: map[string]sdkmath.Int{}, supply: map[string]sdkmath.Int{}, height: ctx.BlockHeight(), infos: map[string]vestInfo{}}
	for _, c := range app.BankKeeper.GetAllBalances(ctx, addr) {
		sn.bal[c.Denom] = c.Amount
	}
	app.BankKeeper.IterateTotalSupply(ctx, func(c sdk.Coin) bool {
		sn.supply[c.Denom] = c.Amount
		return false
	})
	for _, v := range cm.VestingTokens {
		sn.entries = append(sn.entries, vestEntry{Denom: v.Denom, Total: v.TotalAmount, Claimed: v.ClaimedAmount, Start: v.StartBlock, N: v.NumBlocks})
	}
	params := app.CommitmentKeeper.GetParams(ctx)
	sn.vestNow = params.EnableVestNow
	for _, vi := range params.VestingInfos {
		sn.infos[vi.BaseDenom] = vestInfo{vestingDenom: vi.VestingDenom, numBlock: vi.NumBlocks, factor: vi.VestNowFactor, maxVest: vi.NumMaxVestings}
	}
	return sn
}

func singleVestingTx(t *ExecTx) (sdk.Msg, string, bool) {
	msgs := flattenMsgs(t.Spec.Msgs)
	if len(msgs) != 1 {
		return nil, "", false
	}
	o, ok := vestingMsgOwner(msgs[0])
	return msgs[0], o, ok
}

func (m *MonC14) PreTx(ctx sdk.Context, t *ExecTx) {
	if _, owner, ok := singleVestingTx(t); ok {
		m.pre[t.Index] = m.snap(ctx, owner)
	}
}

func releasable(e vestEntry, h int64) sdkmath.Int {
	el := h - e.Start
	if el > e.N {
		el = e.N
	}
	if el < 0 {
		el = 0
	}
	if e.N == 0 {
		return e.Total
	}
	return e.Total.MulRaw(el).QuoRaw(e.N)
}

func get(mm map[string]sdkmath.Int, k string) sdkmath.Int {
	if v, ok := mm[k]; ok {
		return v
	}
	return sdkmath.ZeroInt()
}

func (m *MonC14) PostTx(ctx sdk.Context, t *ExecTx) {
	msg, owner, ok := singleVestingTx(t)
	if !ok {
		return
	}
	pre := m.pre[t.Index]
	if pre == nil {
		return
	}
	s := m.sim
	post := m.snap(ctx, owner)
	culprit := txStep(t)
	s.Stats.Probe("vesting_tx_checked")
	remaining := func(es []vestEntry, denom string) sdkmath.Int {
		r := sdkmath.ZeroInt()
		for _, e := range es {
			if e.Denom == denom {
				r = r.Add(e.Total.Sub(e.Claimed))
			}
		}
		return r
	}
	balDelta := func(d string) sdkmath.Int { return zeroIfNil(post.bal, d).Sub(zeroIfNil(pre.bal, d)) }
	supDelta := func(d string) sdkmath.Int { return zeroIfNil(post.supply, d).Sub(zeroIfNil(pre.supply, d)) }
	touched := map[string]bool{} // vesting denoms whose conservation is re-checked below
	switch x := msg.(type) {
	case *commitmenttypes.MsgVest, *commitmenttypes.MsgVestLiquid:
		var amt sdkmath.Int
		var base string
		_, isVest := x.(*commitmenttypes.MsgVest)
		if isVest {
			amt, base = x.(*commitmenttypes.MsgVest).Amount, x.(*commitmenttypes.MsgVest).Denom
		} else {
			amt, base = x.(*commitmenttypes.MsgVestLiquid).Amount, x.(*commitmenttypes.MsgVestLiquid).Denom
		}
		info := pre.infos[base]
		if len(post.entries) != len(pre.entries)+1 {
			s.Violate("C14", "vest_entry", culprit, "%s: vest of %s%s created %d entries", owner, amt, base, len(post.entries)-len(pre.entries))
			return
		}
		if int64(len(post.entries)) > info.maxVest {
			s.Violate("C14", "max_vestings", culprit, "%s: %d concurrent vestings exceed the maximum %d", owner, len(post.entries), info.maxVest)
		}
		ne := post.entries[len(post.entries)-1]
		if ne.Denom != info.vestingDenom || !ne.Total.Equal(amt) || !ne.Claimed.IsZero() || ne.Start != pre.height || ne.N != info.numBlock {
			s.Violate("C14", "vest_entry", culprit, "%s: new entry %s, expected {denom=%s total=%s claimed=0 start=%d n=%d}", owner, fmtEntries([]vestEntry{ne}), info.vestingDenom, amt, pre.height, info.numBlock)
		}
		if isVest && !pre.eden.Sub(post.eden).Equal(amt) {
			s.Violate("C14", "vest_eden_debit", culprit, "%s: vest of %s Eden debited %s liquid Eden", owner, amt, pre.eden.Sub(post.eden))
		}
		if !isVest {
			if d := balDelta(base).Neg(); !d.Equal(amt) {
				s.Violate("C14", "vest_liquid_debit", culprit, "%s: vest-liquid of %s%s debited %s from the wallet", owner, amt, base, d)
			}
			s.Stats.Probe("vest_liquid_ok")
		}
		k := owner + "|" + info.vestingDenom
		m.in[k] = get(m.in, k).Add(amt)
		touched[info.vestingDenom] = true
	case *commitmenttypes.MsgClaimVesting:
		expected := map[string]sdkmath.Int{}
		var want []vestEntry
		for _, e := range pre.entries {
			rel := releasable(e, pre.height)
			if rel.LT(e.Claimed) {
				rel = e.Claimed // cumulative release never decreases
			}
			expected[e.Denom] = zeroIfNil(expected, e.Denom).Add(rel.Sub(e.Claimed))
			ne := e
			ne.Claimed = rel
			if !ne.Claimed.Equal(ne.Total) {
				want = append(want, ne)
			}
			touched[e.Denom] = true
		}
		for d := range touched {
			got := balDelta(d)
			exp := zeroIfNil(expected, d)
			if !got.Equal(exp) {
				s.Violate("C14", "claim_amount", culprit, "%s: claim at height %d released %s %s, linear schedule says %s (entries before: %s)", owner, pre.height, got, d, exp, fmtEntries(pre.entries))
			}
			wantSup := sdkmath.ZeroInt()
			if d == DenomELYS {
				wantSup = got // released ELYS is minted; other assets are paid out of the custody they were deposited into
			}
			if !supDelta(d).Equal(wantSup) {
				s.Violate("C14", "claim_mint", culprit, "%s: claim paid %s %s but the supply of %s changed by %s (expected %s)", owner, got, d, d, supDelta(d), wantSup)
			}
			k := owner + "|" + d
			m.out[k] = get(m.out, k).Add(got)
			if exp.IsPositive() {
				s.Stats.Probe("vesting_claim_released")
			}
		}
		if fmtEntries(want) != fmtEntries(post.entries) {
			s.Violate("C14", "claim_entries", culprit, "%s: entries after claim %s, expected %s", owner, fmtEntries(post.entries), fmtEntries(want))
		}
		if len(touched) > 1 {
			s.Stats.Probe("vesting_claim_multi_denom")
		}
	case *commitmenttypes.MsgCancelVest:
		if !post.eden.Sub(pre.eden).Equal(x.Amount) {
			s.Violate("C14", "cancel_eden_credit", culprit, "%s: cancel of %s returned %s Eden", owner, x.Amount, post.eden.Sub(pre.eden))
		}
		if d := remaining(pre.entries, DenomELYS).Sub(remaining(post.entries, DenomELYS)); !d.Equal(x.Amount) {
			s.Violate("C14", "cancel_unreleased", culprit, "%s: cancel of %s reduced the not-yet-released amount by %s (before %s, after %s)", owner, x.Amount, d, fmtEntries(pre.entries), fmtEntries(post.entries))
		}
		// the schedules themselves: newest entry first, each gives up at most what it has not released
		// yet; start, length and released amount of every entry stay as they were; an entry whose
		// total is used up disappears
		{
			want := append([]vestEntry(nil), pre.entries...)
			rem := x.Amount
			for i := len(want) - 1; i >= 0; i-- {
				e := want[i]
				if e.Denom != DenomELYS || e.N == 0 || e.Total.IsZero() {
					continue
				}
				take := sdkmath.MinInt(rem, e.Total.Sub(e.Claimed))
				if take.IsNegative() {
					take = sdkmath.ZeroInt()
				}
				e.Total = e.Total.Sub(take)
				want[i] = e
				rem = rem.Sub(take)
			}
			var kept []vestEntry
			for _, e := range want {
				if e.Claimed.GTE(e.Total) {
					continue
				}
				kept = append(kept, e)
			}
			if fmtEntries(kept) != fmtEntries(post.entries) {
				s.Violate("C14", "cancel_entries", culprit, "%s: cancel of %s left the schedules %s, expected %s (before: %s)", owner, x.Amount, fmtEntries(post.entries), fmtEntries(kept), fmtEntries(pre.entries))
			}
		}
		if !balDelta(DenomELYS).IsZero() {
			s.Violate("C14", "cancel_pays_elys", culprit, "%s: cancel changed the uelys balance by %s", owner, balDelta(DenomELYS))
		}
		k := owner + "|" + DenomELYS
		m.back[k] = get(m.back, k).Add(x.Amount)
		touched[DenomELYS] = true
		s.Stats.Probe("vesting_cancel_ok")
	case *commitmenttypes.MsgVestNow:
		info := pre.infos[x.Denom]
		want := x.Amount.Quo(info.factor)
		if got := balDelta(info.vestingDenom); !got.Equal(want) {
			s.Violate("C14", "vest_now_amount", culprit, "%s: vest-now of %s paid %s %s, expected amount/factor = %s/%s = %s", owner, x.Amount, got, info.vestingDenom, x.Amount, info.factor, want)
		}
		if x.Denom == DenomEDEN {
			if d := pre.eden.Sub(post.eden); !d.Equal(x.Amount) {
				s.Violate("C14", "vest_now_eden_debit", culprit, "%s: vest-now of %s debited %s Eden", owner, x.Amount, d)
			}
		}
		s.Stats.Probe("vest_now_ok")
	}
	// per entry: released never exceeds total
	for _, e := range post.entries {
		if e.Claimed.GT(e.Total) {
			s.Violate("C14", "claimed_gt_total", culprit, "%s: entry released %s of total %s", owner, e.Claimed, e.Total)
		}
	}
	// conservation per vesting denom: put into vesting == released + returned by cancel + still scheduled
	for d := range touched {
		k := owner + "|" + d
		if _, tracked := m.in[k]; !tracked {
			continue
		}
		lhs := get(m.in, k)
		rhs := get(m.out, k).Add(get(m.back, k)).Add(remaining(post.entries, d))
		if !lhs.Equal(rhs) {
			s.Violate("C14", "conservation", culprit, "%s %s: put into vesting %s != released %s + returned by cancel %s + still scheduled %s", owner, d, lhs, get(m.out, k), get(m.back, k), remaining(post.entries, d))
		}
	}
}

func fmtEntries(es []vestEntry) string {
	var sb strings.Builder
	sb.WriteString("[")
	for i, e := range es {
		if i > 0 {
			sb.WriteString(" ")
		}
		fmt.Fprintf(&sb, "{%s total=%s claimed=%s start=%d n=%d}", e.Denom, e.Total, e.Claimed, e.Start, e.N)
	}
	sb.WriteString("]")
	return sb.String()
}

func (m *MonC14) AfterBlock(s *Sim, eb *ExecBlock) {
	// "claiming what has vested always succeeds": a pure claim transaction that got past
	// the ante handler must not fail (out-of-gas excepted: that is the caller's limit).
	for _, t := range eb.Txs {
		msg, owner, ok := singleVestingTx(t)
		if !ok || t.OK() || m.pre[t.Index] == nil {
			continue
		}
		if _, isClaim := msg.(*commitmenttypes.MsgClaimVesting); !isClaim {
			continue
		}
		if strings.Contains(t.Res.Log, "out of gas") {
			continue
		}
		s.Violate("C14", "claim_failed", "commitment.MsgClaimVesting", "%s: claim at height %d failed (code %d): %s; entries: %s", owner, eb.Height, t.Res.Code, truncate(firstLine(t.Res.Log), 200), fmtEntries(m.pre[t.Index].entries))
	}
	m.pre = map[int]*vestSnap{}
	if eb.Height%31 == 0 {
		m.drain(s, "sampled")
	}
}

func firstLine(s string) string { return strings.SplitN(s, "\n", 2)[0] }

// ---------------------------------------------------------------------------
// C15 — no user asset is minted or destroyed
//
// Every coinbase/burn event of the block's ledger must be one of the allowed
// kinds; the ledger's self-check ties the events to the real supply.

type MonC15 struct {
	ext map[string]sdkmath.Int // supply of every externally issued denom at the start of the run
}

func (m *MonC15) Name() string { return "C15" }
func (m *MonC15) AtEnd(s *Sim)  {}

func isShareDenom(d string) bool {
	return strings.HasPrefix(d, "amm/pool/") || d == "stablestake/share"
}

func (m *MonC15) AfterBlock(s *Sim, eb *ExecBlock) {
	// state-based, independent of events: the supply of every externally issued asset is constant
	if m.ext == nil {
		m.ext = map[string]sdkmath.Int{}
		for _, a := range Universe {
			if a.Denom != DenomELYS {
				m.ext[a.Denom] = s.N0.App.BankKeeper.GetSupply(s.Ctx(), a.Denom).Amount
			}
		}
	}
	for d, want := range m.ext {
		if got := s.N0.App.BankKeeper.GetSupply(s.Ctx(), d).Amount; !got.Equal(want) {
			s.Violate("C15", "external_supply_changed", culpritOfBlock(eb, nil), "supply of %s changed from %s to %s", d, want, got)
			m.ext[d] = got
		}
	}
	if !s.Ledger.BlockOK {
		return
	}
	for i := range s.Ledger.Moves {
		mv := &s.Ledger.Moves[i]
		if mv.Kind != "mint" && mv.Kind != "burn" {
			continue
		}
		who := s.moduleName(mv.Addr)
		where := mv.Phase
		var tx *ExecTx
		if mv.Phase == "tx" {
			tx = eb.Txs[mv.Tx]
			where = txStep(tx)
		}
		for _, c := range mv.Coins {
			ok := false
			switch {
			case isShareDenom(c.Denom):
				// pairing with deposits/withdrawals is checked by C02 (pool shares) and C07 (vault shares)
				ok = (who == "amm" && strings.HasPrefix(c.Denom, "amm/pool/")) || (who == "stablestake" && c.Denom == "stablestake/share")
			case c.Denom == DenomELYS:
				switch mv.Kind {
				case "mint":
					// only vesting releases (claim / vest-now) by the commitment module
					ok = who == "commitment" && tx != nil && txHasAny(tx, "commitment.MsgClaimVesting", "commitment.MsgVestNow")
					if !ok && who == "commitment" && mv.Phase == "begin" {
						ok = true // provider-reward vesting claim in the estaking epoch hook (a vesting release)
					}
				case "burn":
					// burner module (tokens sent to the burn address), gov deposit burns, slashing of bonded pools
					ok = who == "burner" || who == "gov" || who == "bonded_tokens_pool" || who == "not_bonded_tokens_pool"
				}
			default:
				ok = false // externally issued assets: never
			}
			if !ok {
				s.Violate("C15", mv.Kind+"_"+denomClass(c.Denom), where, "%s of %s by module %q (%s) in %s", mv.Kind, c, who, mv.Addr, where)
			}
		}
	}
	s.Stats.Inc("checks/C15", 1)
}

func denomClass(d string) string {
	switch {
	case isShareDenom(d):
		return "share"
	case d == DenomELYS:
		return "native"
	default:
		return "external"
	}
}

func txHasAny(t *ExecTx, suffixes ...string) bool {
	for _, m := range flattenMsgs(t.Spec.Msgs) {
		u := sdk.MsgTypeURL(m)
		for _, sfx := range suffixes {
			if strings.HasSuffix(u, sfx) {
				return true
			}
		}
	}
	return false
}
