package main

import (
	"fmt"
	"strings"

	sdkmath "cosmossdk.io/math"
	sdk "github.com/cosmos/cosmos-sdk/types"

	commitmenttypes "github.com/elys-network/elys/x/commitment/types"
)

// ---------------------------------------------------------------------------
// C14 — a vesting schedule releases exactly its total, monotonically
//
// Reference model in integers, applied per transaction (exact pre/post state of
// the transaction through the ante/post wrappers).

type vestEntry struct {
	Total, Claimed sdkmath.Int
	Start, N       int64
}

type vestSnap struct {
	entries  []vestEntry
	eden     sdkmath.Int // claimed (liquid) Eden in the commitment ledger
	elys     sdkmath.Int // bank balance
	supply   sdkmath.Int // uelys supply
	height   int64
	numBlock int64
	factor   sdkmath.Int
	maxVest  int64
	vestNow  bool
}

type MonC14 struct {
	sim  *Sim
	pre  map[int]*vestSnap // by tx index
	in   map[string]sdkmath.Int
	out  map[string]sdkmath.Int // released uelys
	back map[string]sdkmath.Int // Eden returned by cancel
}

func newMonC14(s *Sim) *MonC14 {
	return &MonC14{sim: s, pre: map[int]*vestSnap{}, in: map[string]sdkmath.Int{}, out: map[string]sdkmath.Int{}, back: map[string]sdkmath.Int{}}
}

func (m *MonC14) Name() string { return "C14" }
func (m *MonC14) AtEnd(s *Sim)  {}

func vestingMsgOwner(msg sdk.Msg) (string, bool) {
	switch x := msg.(type) {
	case *commitmenttypes.MsgVest:
		return x.Creator, true
	case *commitmenttypes.MsgVestLiquid:
		return x.Creator, true
	case *commitmenttypes.MsgCancelVest:
		return x.Creator, true
	case *commitmenttypes.MsgClaimVesting:
		return x.Sender, true
	case *commitmenttypes.MsgVestNow:
		return x.Creator, true
	}
	return "", false
}

func (m *MonC14) snap(ctx sdk.Context, owner string) *vestSnap {
	app := m.sim.N0.App
	addr := sdk.MustAccAddressFromBech32(owner)
	cm := app.CommitmentKeeper.GetCommitments(ctx, addr)
	sn := &vestSnap{eden: cm.GetClaimedForDenom(DenomEDEN), elys: app.BankKeeper.GetBalance(ctx, addr, DenomELYS).Amount,
		supply: app.BankKeeper.GetSupply(ctx, DenomELYS).Amount, height: ctx.BlockHeight()}
	for _, v := range cm.VestingTokens {
		sn.entries = append(sn.entries, vestEntry{Total: v.TotalAmount, Claimed: v.ClaimedAmount, Start: v.StartBlock, N: v.NumBlocks})
	}
	params := app.CommitmentKeeper.GetParams(ctx)
	sn.vestNow = params.EnableVestNow
	for _, vi := range params.VestingInfos {
		if vi.BaseDenom == DenomEDEN {
			sn.numBlock, sn.factor, sn.maxVest = vi.NumBlocks, vi.VestNowFactor, vi.NumMaxVestings
		}
	}
	return sn
}

func singleVestingTx(t *ExecTx) (sdk.Msg, string, bool) {
	msgs := flattenMsgs(t.Spec.Msgs)
	if len(msgs) != 1 {
		return nil, "", false
	}
	o, ok := vestingMsgOwner(msgs[0])
	return msgs[0], o, ok
}

func (m *MonC14) PreTx(ctx sdk.Context, t *ExecTx) {
	if _, owner, ok := singleVestingTx(t); ok {
		m.pre[t.Index] = m.snap(ctx, owner)
	}
}

func releasable(e vestEntry, h int64) sdkmath.Int {
	el := h - e.Start
	if el > e.N {
		el = e.N
	}
	if el < 0 {
		el = 0
	}
	if e.N == 0 {
		return e.Total
	}
	return e.Total.MulRaw(el).QuoRaw(e.N)
}

func get(mm map[string]sdkmath.Int, k string) sdkmath.Int {
	if v, ok := mm[k]; ok {
		return v
	}
	return sdkmath.ZeroInt()
}

func (m *MonC14) PostTx(ctx sdk.Context, t *ExecTx) {
	msg, owner, ok := singleVestingTx(t)
	if !ok {
		return
	}
	pre := m.pre[t.Index]
	if pre == nil {
		return
	}
	s := m.sim
	post := m.snap(ctx, owner)
	culprit := txStep(t)
	s.Stats.Probe("vesting_tx_checked")
	remaining := func(es []vestEntry) sdkmath.Int {
		r := sdkmath.ZeroInt()
		for _, e := range es {
			r = r.Add(e.Total.Sub(e.Claimed))
		}
		return r
	}
	switch x := msg.(type) {
	case *commitmenttypes.MsgVest, *commitmenttypes.MsgVestLiquid:
		var amt sdkmath.Int
		if v, ok := x.(*commitmenttypes.MsgVest); ok {
			amt = v.Amount
		} else {
			amt = x.(*commitmenttypes.MsgVestLiquid).Amount
		}
		if len(post.entries) != len(pre.entries)+1 {
			s.Violate("C14", "vest_entry", culprit, "%s: vest of %s created %d entries", owner, amt, len(post.entries)-len(pre.entries))
			return
		}
		if int64(len(post.entries)) > pre.maxVest {
			s.Violate("C14", "max_vestings", culprit, "%s: %d concurrent vestings exceed the maximum %d", owner, len(post.entries), pre.maxVest)
		}
		ne := post.entries[len(post.entries)-1]
		if !ne.Total.Equal(amt) || !ne.Claimed.IsZero() || ne.Start != pre.height || ne.N != pre.numBlock {
			s.Violate("C14", "vest_entry", culprit, "%s: new entry total=%s claimed=%s start=%d n=%d, expected total=%s claimed=0 start=%d n=%d", owner, ne.Total, ne.Claimed, ne.Start, ne.N, amt, pre.height, pre.numBlock)
		}
		if _, isVest := x.(*commitmenttypes.MsgVest); isVest && !pre.eden.Sub(post.eden).Equal(amt) {
			s.Violate("C14", "vest_eden_debit", culprit, "%s: vest of %s Eden debited %s liquid Eden", owner, amt, pre.eden.Sub(post.eden))
		}
		m.in[owner] = get(m.in, owner).Add(amt)
	case *commitmenttypes.MsgClaimVesting:
		expected := sdkmath.ZeroInt()
		var want []vestEntry
		for _, e := range pre.entries {
			rel := releasable(e, pre.height)
			if rel.LT(e.Claimed) {
				rel = e.Claimed // cumulative release never decreases
			}
			expected = expected.Add(rel.Sub(e.Claimed))
			ne := e
			ne.Claimed = rel
			if !ne.Claimed.Equal(ne.Total) {
				want = append(want, ne)
			}
			if pre.height-e.Start >= e.N && !rel.Equal(e.Total) {
				s.Harness("C14 model: elapsed schedule does not release total")
			}
		}
		got := post.elys.Sub(pre.elys)
		if !got.Equal(expected) {
			s.Violate("C14", "claim_amount", culprit, "%s: claim at height %d released %s uelys, linear schedule says %s (entries before: %s)", owner, pre.height, got, expected, fmtEntries(pre.entries))
		}
		if !post.supply.Sub(pre.supply).Equal(got) {
			s.Violate("C14", "claim_mint", culprit, "%s: claim paid %s uelys but supply changed by %s", owner, got, post.supply.Sub(pre.supply))
		}
		if fmtEntries(want) != fmtEntries(post.entries) {
			s.Violate("C14", "claim_entries", culprit, "%s: entries after claim %s, expected %s", owner, fmtEntries(post.entries), fmtEntries(want))
		}
		m.out[owner] = get(m.out, owner).Add(got)
		if expected.IsPositive() {
			s.Stats.Probe("vesting_claim_released")
		}
	case *commitmenttypes.MsgCancelVest:
		if !post.eden.Sub(pre.eden).Equal(x.Amount) {
			s.Violate("C14", "cancel_eden_credit", culprit, "%s: cancel of %s returned %s Eden", owner, x.Amount, post.eden.Sub(pre.eden))
		}
		if d := remaining(pre.entries).Sub(remaining(post.entries)); !d.Equal(x.Amount) {
			s.Violate("C14", "cancel_unreleased", culprit, "%s: cancel of %s reduced the not-yet-released amount by %s (before %s, after %s)", owner, x.Amount, d, fmtEntries(pre.entries), fmtEntries(post.entries))
		}
		if !post.elys.Equal(pre.elys) {
			s.Violate("C14", "cancel_pays_elys", culprit, "%s: cancel changed the uelys balance by %s", owner, post.elys.Sub(pre.elys))
		}
		m.back[owner] = get(m.back, owner).Add(x.Amount)
		s.Stats.Probe("vesting_cancel_ok")
	case *commitmenttypes.MsgVestNow:
		want := x.Amount.Quo(pre.factor)
		if got := post.elys.Sub(pre.elys); !got.Equal(want) {
			s.Violate("C14", "vest_now_amount", culprit, "%s: vest-now of %s paid %s uelys, expected amount/factor = %s/%s = %s", owner, x.Amount, got, x.Amount, pre.factor, want)
		}
		if d := pre.eden.Sub(post.eden); !d.Equal(x.Amount) {
			s.Violate("C14", "vest_now_eden_debit", culprit, "%s: vest-now of %s debited %s Eden", owner, x.Amount, d)
		}
		s.Stats.Probe("vest_now_ok")
	}
	// per entry: released never exceeds total
	for _, e := range post.entries {
		if e.Claimed.GT(e.Total) {
			s.Violate("C14", "claimed_gt_total", culprit, "%s: entry released %s of total %s", owner, e.Claimed, e.Total)
		}
	}
	// conservation: Eden put into vesting == released + returned + still scheduled
	if _, tracked := m.in[owner]; tracked {
		lhs := get(m.in, owner)
		rhs := get(m.out, owner).Add(get(m.back, owner)).Add(remaining(post.entries))
		if !lhs.Equal(rhs) {
			s.Violate("C14", "conservation", culprit, "%s: Eden put into vesting %s != released %s + returned by cancel %s + still scheduled %s", owner, lhs, get(m.out, owner), get(m.back, owner), remaining(post.entries))
		}
	}
}

func fmtEntries(es []vestEntry) string {
	var sb strings.Builder
	sb.WriteString("[")
	for i, e := range es {
		if i > 0 {
			sb.WriteString(" ")
		}
		fmt.Fprintf(&sb, "{total=%s claimed=%s start=%d n=%d}", e.Total, e.Claimed, e.Start, e.N)
	}
	sb.WriteString("]")
	return sb.String()
}

func (m *MonC14) AfterBlock(s *Sim, eb *ExecBlock) {
	// "claiming what has vested always succeeds": a pure claim transaction that got past
	// the ante handler must not fail (out-of-gas excepted: that is the caller's limit).
	for _, t := range eb.Txs {
		msg, owner, ok := singleVestingTx(t)
		if !ok || t.OK() || m.pre[t.Index] == nil {
			continue
		}
		if _, isClaim := msg.(*commitmenttypes.MsgClaimVesting); !isClaim {
			continue
		}
		if strings.Contains(t.Res.Log, "out of gas") {
			continue
		}
		s.Violate("C14", "claim_failed", "commitment.MsgClaimVesting", "%s: claim at height %d failed (code %d): %s; entries: %s", owner, eb.Height, t.Res.Code, truncate(firstLine(t.Res.Log), 200), fmtEntries(m.pre[t.Index].entries))
	}
	m.pre = map[int]*vestSnap{}
}

func firstLine(s string) string { return strings.SplitN(s, "\n", 2)[0] }

// ---------------------------------------------------------------------------
// C15 — no user asset is minted or destroyed
//
// Every coinbase/burn event of the block's ledger must be one of the allowed
// kinds; the ledger's self-check ties the events to the real supply.

type MonC15 struct{}

func (m *MonC15) Name() string { return "C15" }
func (m *MonC15) AtEnd(s *Sim)  {}

func isShareDenom(d string) bool {
	return strings.HasPrefix(d, "amm/pool/") || d == "stablestake/share"
}

func (m *MonC15) AfterBlock(s *Sim, eb *ExecBlock) {
	for i := range s.Ledger.Moves {
		mv := &s.Ledger.Moves[i]
		if mv.Kind != "mint" && mv.Kind != "burn" {
			continue
		}
		who := s.moduleName(mv.Addr)
		where := mv.Phase
		var tx *ExecTx
		if mv.Phase == "tx" {
			tx = eb.Txs[mv.Tx]
			where = txStep(tx)
		}
		for _, c := range mv.Coins {
			ok := false
			switch {
			case isShareDenom(c.Denom):
				// pairing with deposits/withdrawals is checked by C02 (pool shares) and C07 (vault shares)
				ok = (who == "amm" && strings.HasPrefix(c.Denom, "amm/pool/")) || (who == "stablestake" && c.Denom == "stablestake/share")
			case c.Denom == DenomELYS:
				switch mv.Kind {
				case "mint":
					// only vesting releases (claim / vest-now) by the commitment module
					ok = who == "commitment" && tx != nil && txHasAny(tx, "commitment.MsgClaimVesting", "commitment.MsgVestNow")
					if !ok && who == "commitment" && mv.Phase == "begin" {
						ok = true // provider-reward vesting claim in the estaking epoch hook (a vesting release)
					}
				case "burn":
					// burner module (tokens sent to the burn address), gov deposit burns, slashing of bonded pools
					ok = who == "burner" || who == "gov" || who == "bonded_tokens_pool" || who == "not_bonded_tokens_pool"
				}
			default:
				ok = false // externally issued assets: never
			}
			if !ok {
				s.Violate("C15", mv.Kind+"_"+denomClass(c.Denom), where, "%s of %s by module %q (%s) in %s", mv.Kind, c, who, mv.Addr, where)
			}
		}
	}
	s.Stats.Inc("checks/C15", 1)
}

func denomClass(d string) string {
	switch {
	case isShareDenom(d):
		return "share"
	case d == DenomELYS:
		return "native"
	default:
		return "external"
	}
}

func txHasAny(t *ExecTx, suffixes ...string) bool {
	for _, m := range flattenMsgs(t.Spec.Msgs) {
		u := sdk.MsgTypeURL(m)
		for _, sfx := range suffixes {
			if strings.HasSuffix(u, sfx) {
				return true
			}
		}
	}
	return false
}
