package main

import (
	"strings"

)

func buildMonitors(s *Sim) []Monitor {
	ms := []Monitor{
		newMonC01(s),
		newMonC02(s),
		&MonC02Ledger{},
	}
	ms = append(ms, extraMonitors(s)...)
	for _, m := range ms {
		if o, ok := m.(TxObserver); ok {
			s.Hooks.Observers = append(s.Hooks.Observers, o)
		}
	}
	return ms
}

// noteState records the abstract state signature after a block and the
// interleaving 3-grams of the block's events.
func (st *Stats) noteState(s *Sim) {
	eb := s.cur
	if eb == nil {
		return
	}
	for _, t := range eb.Txs {
		typ := "?"
		if len(t.Spec.Msgs) > 0 {
			typ = shortType(msgURL(t.Spec.Msgs[0]))
		}
		ok := "fail"
		if t.OK() {
			ok = "ok"
		}
		st.Gram("signer/"+t.Spec.Signer, typ+"/"+ok)
		st.Gram("chain", typ+"/"+ok)
	}
	sig := stateSignature(s)
	st.States[hash64(sig)] = struct{}{}
}

func bucket(n int) string {
	switch {
	case n == 0:
		return "0"
	case n == 1:
		return "1"
	case n <= 3:
		return "2-3"
	case n <= 8:
		return "4-8"
	default:
		return "9+"
	}
}

func stateSignature(s *Sim) string {
	var sb strings.Builder
	sn := s.Snap()
	no, nc := 0, 0
	for _, p := range sn.Pools {
		if p.PoolParams.UseOracle {
			no++
		} else {
			nc++
		}
	}
	sb.WriteString("pools:" + bucket(no) + "/" + bucket(nc))
	sb.WriteString(extraSignature(s))
	return sb.String()
}
