package main

import (
	"encoding/json"
	"fmt"
	"os"
	"runtime/debug"
	"time"

	"cosmossdk.io/log"
	abci "github.com/cometbft/cometbft/abci/types"
	cmtproto "github.com/cometbft/cometbft/proto/tendermint/types"
	"github.com/cosmos/cosmos-sdk/baseapp"
	"github.com/cosmos/cosmos-sdk/client/flags"
	"github.com/cosmos/cosmos-sdk/server"
	simtestutil "github.com/cosmos/cosmos-sdk/testutil/sims"
	sdk "github.com/cosmos/cosmos-sdk/types"

	elysapp "github.com/elys-network/elys/app"
)

// Node is elysd minus CometBFT: a real ElysApp over a simulated disk.
type Node struct {
	Name     string
	DB       *SimDB
	App      *elysapp.ElysApp
	Home     string
	Restarts int
	hooks    *TxHooks // optional ante/post observers (identical on all replicas)
	// Prod: start the way elysd does - NewElysApp(loadLatest=true) loads the latest version inside
	// the constructor and seals the app - with nothing of the harness installed. Code that runs in
	// the constructor after the load (and anything else the harness's two-step start-up would skip)
	// is then part of every start and restart of this node. Only for replicas, and only in runs
	// without exact gas cuts (those need the harness's ante wrapper on every node).
	Prod bool
}

// Block is what the simulated consensus engine hands to every node.
type Block struct {
	Height int64
	Time   time.Time
	Txs    [][]byte
}

// BlockResult is everything a node reports for a block.
type BlockResult struct {
	Resp    *abci.ResponseFinalizeBlock
	AppHash []byte // after Commit
	Err     error  // error returned by FinalizeBlock/Commit
	Panic   string // recovered panic (with stack) if any
	Phase   string // "finalize" | "commit" where Err/Panic occurred
}

func simHome() string {
	h := os.Getenv("ELYSSIM_HOME")
	if h == "" {
		h = "/tmp/elyssim-home"
	}
	_ = os.MkdirAll(h, 0o755)
	return h
}

func newApp(db *SimDB, home string, opts ...func(*baseapp.BaseApp)) *elysapp.ElysApp {
	return newAppLoad(db, home, false, opts...)
}

func newAppLoad(db *SimDB, home string, loadLatest bool, opts ...func(*baseapp.BaseApp)) *elysapp.ElysApp {
	appOpts := make(simtestutil.AppOptionsMap)
	appOpts[flags.FlagHome] = home
	appOpts[server.FlagInvCheckPeriod] = 0
	opts = append(opts, baseapp.SetChainID(ChainID))
	return elysapp.NewElysApp(log.NewNopLogger(), db, nil, loadLatest, map[int64]bool{}, home, appOpts, opts...)
}

// NewProdNode: a replica started the production way (see Node.Prod).
func NewProdNode(name string, db *SimDB) (*Node, error) {
	n := &Node{Name: name, DB: db, Home: simHome(), Prod: true}
	if err := n.boot(); err != nil {
		return nil, err
	}
	return n, nil
}

// NewNode builds (or re-builds, after a crash) a node over db.
func NewNode(name string, db *SimDB, hooks *TxHooks) (*Node, error) {
	n := &Node{Name: name, DB: db, Home: simHome(), hooks: hooks}
	if err := n.boot(); err != nil {
		return nil, err
	}
	return n, nil
}

func (n *Node) boot() (err error) {
	defer func() {
		if r := recover(); r != nil {
			err = fmt.Errorf("boot panic: %v\n%s", r, debug.Stack())
		}
	}()
	if n.Prod {
		n.App = newAppLoad(n.DB, n.Home, true)
		return nil
	}
	app := newApp(n.DB, n.Home)
	installGasCut(app) // on every node alike (see gascut.go)
	if n.hooks != nil {
		n.hooks.install(app)
	}
	if err := app.LoadLatestVersion(); err != nil {
		return err
	}
	n.App = app
	return nil
}

// Restart simulates process death + start from the database: only what SimDB
// holds survives.
func (n *Node) Restart() error {
	n.App = nil
	n.Restarts++
	n.DB.ReleaseAll() // the dead process' open iterators (and their locks) die with it
	return n.boot()
}

func (n *Node) InitChain(w *World) error {
	gs, err := BuildGenesis(n.App, w)
	if err != nil {
		return err
	}
	bz, err := json.Marshal(gs)
	if err != nil {
		return err
	}
	_, err = n.App.InitChain(&abci.RequestInitChain{
		Time:            w.Cfg.GenesisTime,
		ChainId:         ChainID,
		Validators:      []abci.ValidatorUpdate{},
		ConsensusParams: defaultConsensusParams(),
		AppStateBytes:   bz,
		InitialHeight:   1,
	})
	return err
}

// Finalize runs FinalizeBlock only (crash point (b) of DESIGN §3 sits between
// Finalize and Commit).
func (n *Node) Finalize(w *World, b *Block) (res BlockResult) {
	res.Phase = "finalize"
	defer func() {
		if r := recover(); r != nil {
			res.Panic = fmt.Sprintf("%v\n%s", r, debug.Stack())
		}
	}()
	req := &abci.RequestFinalizeBlock{
		Height:             b.Height,
		Time:               b.Time,
		Txs:                b.Txs,
		Hash:               blockHash(b),
		ProposerAddress:    w.ValSet.Validators[0].Address,
		NextValidatorsHash: w.ValSet.Hash(),
		DecidedLastCommit: abci.CommitInfo{Votes: []abci.VoteInfo{{
			Validator:   abci.Validator{Address: w.ValSet.Validators[0].Address, Power: w.ValSet.Validators[0].VotingPower},
			BlockIdFlag: 2, // commit
		}}},
	}
	res.Resp, res.Err = n.App.FinalizeBlock(req)
	return res
}

func (n *Node) Commit(res *BlockResult) {
	res.Phase = "commit"
	defer func() {
		if r := recover(); r != nil {
			res.Panic = fmt.Sprintf("%v\n%s", r, debug.Stack())
		}
	}()
	_, err := n.App.Commit()
	if err != nil {
		res.Err = err
		return
	}
	res.AppHash = n.App.LastCommitID().Hash
	res.Phase = ""
}

// Apply = Finalize + Commit.
func (n *Node) Apply(w *World, b *Block) BlockResult {
	res := n.Finalize(w, b)
	if res.Err != nil || res.Panic != "" {
		return res
	}
	n.Commit(&res)
	return res
}

// Ctx returns a read context over the last committed state.
func (n *Node) Ctx() sdk.Context {
	return n.App.BaseApp.NewUncachedContext(false, cmtproto.Header{})
}

func blockHash(b *Block) []byte {
	h := make([]byte, 32)
	x := uint64(b.Height)*0x9E3779B97F4A7C15 + uint64(b.Time.UnixNano())
	for i := 0; i < 32; i++ {
		h[i] = byte(x >> (uint(i%8) * 8))
		if i%8 == 7 {
			x = x*6364136223846793005 + 1442695040888963407
		}
	}
	return h
}
