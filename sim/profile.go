package main

import (
	"math/rand/v2"
	"time"

	sdk "github.com/cosmos/cosmos-sdk/types"
	"github.com/cosmos/cosmos-sdk/x/authz"
)

// MakeConfig derives the swarm configuration of one run from (seed, profile,
// tier). Everything a run does is a function of the returned config and seed.
func MakeConfig(seed uint64, profile, tier string) SwarmConfig {
	r := rand.New(rand.NewPCG(seed, hash64("swarm/"+profile)))
	g := DefaultGenesisConfig()
	c := SwarmConfig{Profile: profile, Genesis: g, Rate: map[string]float64{}}
	// ---- sizes
	if tier == "thorough" {
		c.Horizon = pick(r, []int{60, 120, 200, 400})
	} else {
		c.Horizon = pick(r, []int{40, 60, 90, 120})
	}
	c.MaxBlockTxs = pick(r, []int{6, 12, 25, 40})
	c.NumPools = 2 + r.IntN(4)
	c.PoolFeeMax = pick(r, []float64{0, 0.003, 0.02})
	c.PriceVol = pick(r, []float64{0.0005, 0.004, 0.02, 0.06})
	c.PriceJump = pick(r, []float64{0, 0.01, 0.05})
	c.FeeDenoms = pick(r, [][]string{{DenomELYS}, {DenomELYS, DenomUSDC}, {DenomELYS, DenomUSDC, DenomATOM}, {DenomATOM, DenomUSDC, DenomWBTC, DenomTIA, DenomINC, DenomELYS}})
	// ---- genesis knobs
	c.Genesis.NumUsers = pick(r, []int{6, 10, 16})
	c.Genesis.OraclePriceExpiry = pick(r, []uint64{20, 60, 600, 86400})
	c.Genesis.OracleLifeBlocks = pick(r, []uint64{1, 3, 10, 1000})
	c.Genesis.VestingNumBlocks = pick(r, []int64{5, 17, 40, 100})
	c.Genesis.NumMaxVestings = pick(r, []int64{1, 2, 4, 10})
	c.Genesis.VestNowFactor = pick(r, []int64{1, 3, 90})
	c.Genesis.GovVotingPeriod = time.Duration(pick(r, []int{8, 12, 20})) * time.Second
	c.Genesis.BurnerEpoch = pick(r, []string{"five_minutes", "tenseconds", "band_epoch", "day"})
	c.Genesis.LevLpNumPerBlock = pick(r, []int64{1, 2, 5, 1000})
	c.Genesis.LevLpEpochLength = pick(r, []int64{1, 1, 3})
	c.Genesis.LevLpSafety = pick(r, []string{"1.05", "1.1", "1.3"})
	c.Genesis.PerpSafety = pick(r, []string{"1.025", "1.05", "1.2"})
	c.Genesis.StableEpochLength = pick(r, []int64{1, 1, 5})
	c.Genesis.EdenRewards = r.IntN(4) != 0
	// tuning knobs of the amm's fee split: the defaults (half / a tenth) make distinct quantities coincide
	if r.IntN(3) != 0 {
		c.Genesis.AmmFeeSplit = []string{pick(r, []string{"0", "0.2", "0.8", "1"}), pick(r, []string{"0", "0.1", "0.5", "1"}), pick(r, []string{"0.0005", "0.005", "0.05"}), pick(r, []string{"0.05", "0.3", "0.6"})}
	}
	c.Genesis.Airdrops = profile == "C17" || profile == "C12" || profile == "C14"
	// ---- agents: every agent is present with a rate drawn per run
	lo := []float64{0, 0.15, 0.4, 0.7}
	for _, a := range allAgentNames {
		c.Rate[a] = pick(r, lo)
	}
	c.Rate["feeder"] = 1
	c.Rate["gov"] = 1
	c.Rate["bootstrap"] = 1
	// ---- faults: each kind enabled in a subset of runs
	f := &c.Faults
	on := func(p float64) bool { return r.Float64() < p }
	if on(0.5) {
		f.TxDrop = pick(r, []float64{0.02, 0.1})
	}
	if on(0.5) {
		f.TxDelay = pick(r, []float64{0.05, 0.25})
	}
	if on(0.5) {
		f.TxDup = pick(r, []float64{0.03, 0.15})
	}
	if on(0.4) {
		f.TxReorder = pick(r, []float64{0.1, 0.5})
	}
	if on(0.3) {
		f.StaleSeq = 0.03
	}
	if on(0.5) {
		f.GasStarve = pick(r, []float64{0.02, 0.1})
	}
	if on(0.5) {
		f.OracleOutage = pick(r, []float64{0.01, 0.04})
		f.OutageLen = pick(r, []int{2, 8, 40})
	}
	if on(0.5) {
		f.ClockJump = pick(r, []float64{0.01, 0.05})
	}
	if on(0.5) {
		f.BotStall = 0.05
	}
	if on(0.4) {
		f.Quiet = pick(r, []float64{0.01, 0.04})
	}
	if on(0.6) {
		c.Replica = true
		f.Restart = pick(r, []float64{0.03, 0.15})
	}
	// ---- profile emphasis
	emph := func(names ...string) {
		for _, n := range names {
			if c.Rate[n] < 0.6 {
				c.Rate[n] = 0.8
			}
		}
	}
	switch profile {
	case "C01":
		emph("trader", "lp", "donor", "perp", "levlp", "liquidator", "lender")
		if r.IntN(2) == 0 {
			c.PriceJump = 0.05
		}
	case "C03", "C04", "C05":
		emph("trader", "lp", "donor", "arb")
	case "C02":
		emph("lp", "levlp", "liquidator")
		if r.IntN(4) == 0 {
			c.Rate["squatter"] = 0.5
		}
	case "C06", "C07":
		emph("lender", "levlp", "liquidator")
		if profile == "C07" && r.IntN(2) == 0 {
			emph("govchaos") // raises the leveraged-LP utilisation limit so that the vault's own cap binds
		}
	case "C08":
		emph("levlp", "liquidator", "lender")
		if r.IntN(2) == 0 {
			c.PriceJump = 0.05
		}
	case "C09", "C11":
		emph("perp", "liquidator", "trader", "lp")
		if r.IntN(2) == 0 {
			c.PriceJump = 0.05
		}
		if r.IntN(4) == 0 {
			// neglect: months pass in single blocks and no bot liquidates, so interest and funding eat
			// positions' custody before their owners come back
			f.LongGap = true
			f.ClockJump = 0.08
			c.Rate["liquidator"] = 0
			c.PriceVol = 0.0005
			c.PriceJump = 0
		}
	case "C10":
		emph("perp", "levlp", "liquidator", "lender")
		c.PriceVol = pick(r, []float64{0.02, 0.06})
	case "C12", "C14":
		emph("commit", "lp", "lender", "govchaos")
	case "C13":
		emph("trader", "lp", "commit", "perp", "incentive")
		if r.IntN(3) == 0 {
			c.LatePoolAt = int64(15 + r.IntN(30))
		}
		if r.IntN(2) == 0 {
			emph("govchaos") // Eden toggles, multipliers, reward portions while rewards accrue
			c.EdenCycle = true
			c.Genesis.EdenRewards = true
		}
	case "C15":
		emph("donor", "commit", "trader", "govchaos")
	case "C16":
		emph("oraclechaos")
	case "C17":
		emph("attacker", "perp", "levlp", "orders", "lender", "lp", "commit")
		c.Shadow = true
	case "C18":
		c.Shadow = r.IntN(2) == 0
		f.OracleOutage = pick(r, []float64{0.03, 0.08})
		f.OutageLen = pick(r, []int{3, 10, 40})
		f.ClockJump = pick(r, []float64{0.02, 0.08})
		emph("perp", "levlp", "trader")
		c.CoolDown = 10
		c.Rate["canary"] = 1
		f.Quiet = pick(r, []float64{0.02, 0.06})
		if r.IntN(5) < 3 {
			c.Rate["govedge"] = pick(r, []float64{0.3, 0.8})
		}
	case "C19":
		c.Replica = true
		c.Reexec = true
		c.ProdBoot = r.IntN(2) == 0
		c.ReexecDumpAt = int64(4 + r.IntN(max(1, c.Horizon-8)))
		f.Restart = pick(r, []float64{0.1, 0.3})
		if tier == "thorough" {
			c.RestartEveryHeight = true
		}
	case "C20":
		emph("orders", "executor", "perp", "trader")
		if r.IntN(3) == 0 {
			c.Rate["squatter"] = 0.0001 // only its escrow-dust behaviour
			c.Rate["escrowdust"] = 1
		}
	}
	return c
}

var allAgentNames = []string{"trader", "lp", "donor", "arb", "lender", "levlp", "perp", "liquidator", "commit", "incentive", "oraclechaos", "attacker", "orders", "executor", "govchaos"}

func buildAgents(s *Sim) []Agent {
	s.Market = newMarket()
	s.Gov = &GovAgent{baseAgent: newBase(s, "gov"), voted: map[uint64]bool{}}
	var out []Agent
	out = append(out, &FeederAgent{baseAgent: newBase(s, "feeder")})
	out = append(out, newBootstrap(s))
	out = append(out, s.Gov)
	add := func(name string, a Agent) {
		if s.Cfg.rate(name) > 0 {
			out = append(out, a)
		}
	}
	add("trader", &TraderAgent{newBase(s, "trader")})
	add("lp", &LPAgent{newBase(s, "lp")})
	add("donor", &DonorAgent{newBase(s, "donor")})
	out = append(out, extraAgents(s)...)
	return out
}

func newBootstrap(s *Sim) *BootstrapAgent {
	b := &BootstrapAgent{baseAgent: newBase(s, "bootstrap"), asked: map[uint64]bool{}}
	r := b.rng
	// pool 1 is always the USDC/ATOM oracle pool (leveragelp + perpetual)
	b.plans = append(b.plans, poolPlan{other: DenomATOM, oracle: true, wUSDC: 50, wOther: 50, usdc: pick(r, []int64{2e9, 5e10, 2e11})})
	others := []string{DenomELYS, DenomWBTC, DenomTIA, DenomINC, DenomATOM}
	twin := r.IntN(4) == 0
	if twin {
		// a second oracle pool for the same pair as pool 1: the same trading asset on two markets
		others = []string{DenomATOM, DenomELYS, DenomWBTC, DenomTIA, DenomINC}
	}
	for i := 1; i < s.Cfg.NumPools; i++ {
		o := others[(i-1)%len(others)]
		oracle := o != DenomINC && r.IntN(3) == 0
		if twin && i == 1 {
			oracle = true
		}
		w := pick(r, [][2]int64{{50, 50}, {1, 1}, {20, 80}, {90, 10}, {1, 9}, {70, 30}})
		if oracle {
			w = [2]int64{50, 50}
		}
		b.plans = append(b.plans, poolPlan{other: o, oracle: oracle, wUSDC: w[0], wOther: w[1], usdc: pick(r, []int64{1e6, 1e8, 1e10, 1e11})})
	}
	return b
}

// flattenMsgs unwraps authz.MsgExec.
func flattenMsgs(msgs []sdk.Msg) []sdk.Msg {
	var out []sdk.Msg
	for _, m := range msgs {
		if ex, ok := m.(*authz.MsgExec); ok {
			inner, err := ex.GetMessages()
			if err == nil {
				out = append(out, flattenMsgs(inner)...)
				continue
			}
		}
		out = append(out, m)
	}
	return out
}
