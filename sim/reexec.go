package main

import (
	"encoding/gob"
	"encoding/hex"
	"encoding/json"
	"fmt"
	"os"
	"os/exec"
	"path/filepath"
	"time"
)

// Out-of-process replica (N2): the recorded block log of a run is re-executed in
// a FRESH operating-system process with a different TZ and GOMAXPROCS, either
// from genesis or resuming from a dump of the reference node's database taken at
// some height (a restart in another process: nothing but the database survives,
// not even package-level variables). Per-height app hashes must be identical.

type loggedBlock struct {
	Height int64    `json:"h"`
	TimeNs int64    `json:"t"`
	Txs    []string `json:"txs"`
	Hash   string   `json:"hash"`
}

type reexecJob struct {
	Cfg    SwarmConfig   `json:"cfg"`
	From   int64         `json:"from"`    // 0 = from genesis; otherwise resume from the DB dump taken after this height
	DBDump string        `json:"db_dump"` // gob file of the database content at height From
	Blocks []loggedBlock `json:"blocks"`  // blocks From+1 ...
}

// fakeClockStep is set only in the fake-wall-clock child (fakeclock_test.go): called before every block.
var fakeClockStep func(i int)

type reexecResult struct {
	OK       bool   `json:"ok"`
	WallClockYear int `json:"wall_clock_year,omitempty"` // year the child's time.Now() showed after the last block
	Height   int64  `json:"height,omitempty"`
	Got      string `json:"got,omitempty"`
	Want     string `json:"want,omitempty"`
	Err      string `json:"err,omitempty"`
	Compared int    `json:"compared"`
}

func dumpDB(d *SimDB, path string) error {
	it, err := d.inner.Iterator(nil, nil)
	if err != nil {
		return err
	}
	defer it.Close()
	kv := map[string][]byte{}
	for ; it.Valid(); it.Next() {
		kv[string(it.Key())] = append([]byte(nil), it.Value()...)
	}
	f, err := os.Create(path)
	if err != nil {
		return err
	}
	defer f.Close()
	return gob.NewEncoder(f).Encode(kv)
}

func loadDB(path string) (*SimDB, error) {
	f, err := os.Open(path)
	if err != nil {
		return nil, err
	}
	defer f.Close()
	kv := map[string][]byte{}
	if err := gob.NewDecoder(f).Decode(&kv); err != nil {
		return nil, err
	}
	d := NewSimDB()
	for k, v := range kv {
		if v == nil {
			v = []byte{}
		}
		if err := d.inner.Set([]byte(k), v); err != nil {
			return nil, err
		}
	}
	return d, nil
}

// cmdReexec is the child: re-executes the job and prints a reexecResult.
func cmdReexec(args []string) {
	out := reexecResult{}
	defer func() {
		bz, _ := json.Marshal(out)
		fmt.Println(string(bz))
	}()
	if len(args) < 1 {
		out.Err = "usage: elyssim reexec JOB.json"
		return
	}
	bz, err := os.ReadFile(args[0])
	if err != nil {
		out.Err = err.Error()
		return
	}
	var job reexecJob
	if err := json.Unmarshal(bz, &job); err != nil {
		out.Err = err.Error()
		return
	}
	w := NewWorld(job.Cfg.Genesis)
	var n *Node
	if job.From == 0 {
		if job.Cfg.ProdBoot {
			n, err = NewProdNode("n2", NewSimDB())
		} else {
			n, err = NewNode("n2", NewSimDB(), nil)
		}
		if err == nil {
			err = n.InitChain(w)
		}
		if err == nil {
			b1 := &Block{Height: 1, Time: job.Cfg.Genesis.GenesisTime.Add(5 * time.Second)}
			if r := n.Apply(w, b1); r.Err != nil || r.Panic != "" {
				err = fmt.Errorf("boot block: %v %s", r.Err, r.Panic)
			}
		}
	} else {
		var db *SimDB
		db, err = loadDB(job.DBDump)
		if err == nil {
			if job.Cfg.ProdBoot {
				n, err = NewProdNode("n2", db)
			} else {
				n, err = NewNode("n2", db, nil)
			}
		}
	}
	if err != nil {
		out.Err = err.Error()
		return
	}
	for i, lb := range job.Blocks {
		if fakeClockStep != nil {
			fakeClockStep(i)
			out.WallClockYear = time.Now().Year()
		}
		blk := &Block{Height: lb.Height, Time: time.Unix(0, lb.TimeNs).UTC()}
		for _, h := range lb.Txs {
			bz, err := hex.DecodeString(h)
			if err != nil {
				out.Err = err.Error()
				return
			}
			blk.Txs = append(blk.Txs, bz)
		}
		res := n.Finalize(w, blk)
		n.DB.ReleaseAll()
		if res.Err == nil && res.Panic == "" {
			n.Commit(&res)
		}
		if res.Err != nil || res.Panic != "" {
			out.Height, out.Err = lb.Height, fmt.Sprintf("block failed: %v %s", res.Err, truncate(res.Panic, 400))
			return
		}
		out.Compared++
		if got := hex.EncodeToString(res.AppHash); got != lb.Hash {
			out.Height, out.Got, out.Want = lb.Height, got, lb.Hash
			return
		}
	}
	out.OK = true
}

// reexecInFreshProcess runs the child and returns its verdict.
func (s *Sim) reexecInFreshProcess(job *reexecJob, env []string) (*reexecResult, error) {
	return s.reexecChild(job, env, "")
}

// fakeClockBinary: the go1.26.8-built test binary of this package (see fakeclock_test.go), if present.
func fakeClockBinary() string {
	self, err := os.Executable()
	if err != nil {
		return ""
	}
	p := filepath.Join(filepath.Dir(self), "elyssim-fakeclock")
	if st, err := os.Stat(p); err == nil && !st.IsDir() {
		return p
	}
	return ""
}

// reexecChild runs the job in a child process: this binary's `reexec` command, or (fake != "") the
// fake-wall-clock test binary.
func (s *Sim) reexecChild(job *reexecJob, env []string, fake string) (*reexecResult, error) {
	dir, err := os.MkdirTemp("", "elyssim-reexec-")
	if err != nil {
		return nil, err
	}
	defer os.RemoveAll(dir)
	if job.From > 0 {
		// the dump was written into s.dumpPath; move it next to the job
		job.DBDump = s.dumpPath
	}
	bz, _ := json.Marshal(job)
	jp := filepath.Join(dir, "job.json")
	if err := os.WriteFile(jp, bz, 0o644); err != nil {
		return nil, err
	}
	if keep := os.Getenv("ELYSSIM_KEEP_JOB"); keep != "" {
		_ = os.WriteFile(filepath.Join(keep, fmt.Sprintf("job-%d-from%d.json", s.Seed, job.From)), bz, 0o644)
	}
	self, _ := os.Executable()
	cmd := exec.Command(self, "reexec", jp)
	if fake != "" {
		cmd = exec.Command(fake, "-test.run=^TestFakeClockReexec$", "-test.timeout=30m")
		env = append(env, "ELYSSIM_FAKECLOCK_JOB="+jp, "GODEBUG=asynctimerchan=0")
	}
	cmd.Env = append(os.Environ(), env...)
	cmd.Env = append(cmd.Env, "ELYSSIM_HOME="+filepath.Join(dir, "home"))
	outb, err := cmd.Output()
	if err != nil {
		tail := ""
		if ee, ok := err.(*exec.ExitError); ok {
			tail = string(ee.Stderr)
			if len(tail) > 1500 {
				tail = tail[:700] + " ... " + tail[len(tail)-700:]
			}
		}
		return nil, fmt.Errorf("child failed: %v %s", err, tail)
	}
	var res reexecResult
	lines := splitLines(string(outb))
	if len(lines) == 0 {
		return nil, fmt.Errorf("child printed nothing")
	}
	if err := json.Unmarshal([]byte(lines[len(lines)-1]), &res); err != nil {
		return nil, fmt.Errorf("child output: %v: %s", err, truncate(string(outb), 300))
	}
	return &res, nil
}

func splitLines(s string) []string {
	var out []string
	cur := ""
	for _, c := range s {
		if c == '\n' {
			if cur != "" {
				out = append(out, cur)
			}
			cur = ""
		} else {
			cur += string(c)
		}
	}
	if cur != "" {
		out = append(out, cur)
	}
	return out
}

// finishReexec is called at the end of a run with cfg.Reexec.
func (s *Sim) finishReexec() {
	if !s.Cfg.Reexec || len(s.blockLog) == 0 || s.halted || s.HarnessErr != "" {
		return
	}
	defer func() {
		if s.dumpPath != "" {
			os.Remove(s.dumpPath)
		}
	}()
	// 1. from genesis, other TZ / GOMAXPROCS
	job := &reexecJob{Cfg: s.Cfg, From: 0, Blocks: s.blockLog}
	res, err := s.reexecInFreshProcess(job, []string{"TZ=Pacific/Kiritimati", "GOMAXPROCS=3"})
	if err != nil {
		s.Harness("reexec: %v", err)
		return
	}
	s.Stats.Inc("reexec_fresh_process_from_genesis_blocks", float64(res.Compared))
	if !res.OK {
		s.Violate("C19", "fresh_process_diverged", "reexec/from_genesis", "a fresh OS process (other TZ, GOMAXPROCS) re-executing the same block log from genesis diverged at height %d: app hash %s, reference %s %s", res.Height, res.Got, res.Want, res.Err)
		return
	}
	// 1b. from genesis under a fake wall clock (testing/synctest bubble, go1.26.8 build): the wall clock
	// starts in the year 2000 and jumps by minutes to decades between blocks
	if fc := fakeClockBinary(); fc != "" {
		job := &reexecJob{Cfg: s.Cfg, From: 0, Blocks: s.blockLog}
		res, err := s.reexecChild(job, []string{"TZ=Asia/Kathmandu", "GOMAXPROCS=2"}, fc)
		if err != nil {
			s.Harness("reexec(fake clock): %v", err)
			return
		}
		s.Stats.Inc("reexec_fake_wall_clock_blocks", float64(res.Compared))
		if res.WallClockYear > 0 {
			s.Stats.Inc("reexec_fake_wall_clock_years_spanned", float64(res.WallClockYear-2000))
		}
		s.Stats.Inc("fault/replica_under_fake_wall_clock", 1)
		if !res.OK {
			s.Violate("C19", "fake_wall_clock_diverged", "reexec/fake_wall_clock", "a replica re-executing the same block log under a simulated wall clock (year 2000 onwards, jumping between blocks; reached year %d) diverged at height %d: app hash %s, reference %s %s", res.WallClockYear, res.Height, res.Got, res.Want, res.Err)
			return
		}
	} else {
		s.Stats.Probe("fake_wall_clock_replica_unavailable")
	}
	// 2. resume from the database dump taken at height dumpAt (restart in another process)
	if s.dumpPath != "" && s.dumpAt > 0 {
		var rest []loggedBlock
		for _, b := range s.blockLog {
			if b.Height > s.dumpAt {
				rest = append(rest, b)
			}
		}
		job := &reexecJob{Cfg: s.Cfg, From: s.dumpAt, Blocks: rest}
		res, err := s.reexecInFreshProcess(job, []string{"TZ=America/St_Johns", "GOMAXPROCS=1"})
		if err != nil {
			s.Harness("reexec(resume): %v", err)
			return
		}
		s.Stats.Inc("reexec_fresh_process_resumed_from_db_blocks", float64(res.Compared))
		if !res.OK {
				s.Violate("C19", "fresh_process_diverged", "reexec/resume_from_db", "a fresh OS process restarted from the reference node's database at height %d diverged at height %d: app hash %s, reference %s %s", s.dumpAt, res.Height, res.Got, res.Want, res.Err)
		}
	}
}
