package main

import (
	"encoding/json"
	"fmt"
	"os"
	"os/exec"
	"path/filepath"
	"runtime"
	"sync"
	"time"
)

// ReplayFile is the artefact reported with a violation: seed, configuration,
// the minimised explicit schedule/fault trace, the expected violation and the
// expected per-height app hashes.
type ReplayFile struct {
	Property   string    `json:"property"`
	Violation  Violation `json:"violation"`
	Seed       uint64    `json:"seed"`
	Minimised  bool      `json:"minimised"`
	OrigBlocks int       `json:"orig_blocks"`
	OrigTxs    int       `json:"orig_txs"`
	Blocks     int       `json:"blocks"`
	Txs        int       `json:"txs"`
	Execs      int       `json:"minimiser_executions"`
	Trace      *Trace    `json:"trace"`
	Hashes     []string  `json:"app_hashes"`
}

func loadTrace(path string) (*Trace, error) {
	bz, err := os.ReadFile(path)
	if err != nil {
		return nil, err
	}
	var t Trace
	if err := json.Unmarshal(bz, &t); err != nil {
		return nil, err
	}
	return &t, nil
}

func cloneTrace(t *Trace) *Trace {
	n := &Trace{Seed: t.Seed, Cfg: t.Cfg}
	for _, b := range t.Blocks {
		nb := &BlockSpec{DtMs: b.DtMs, Faults: append([]Fault(nil), b.Faults...), Note: b.Note}
		for _, tx := range b.Txs {
			c := *tx
			c.Msgs = nil
			nb.Txs = append(nb.Txs, &c)
		}
		n.Blocks = append(n.Blocks, nb)
	}
	return n
}

func countTxs(t *Trace) int {
	n := 0
	for _, b := range t.Blocks {
		n += len(b.Txs)
	}
	return n
}

// replayTrace executes a trace and returns the sim.
func replayTrace(t *Trace, stopClass string) (*Sim, error) {
	cfg := t.Cfg
	s, err := NewSim(t.Seed, cfg, cloneTrace(t))
	if err != nil {
		return nil, err
	}
	s.StopClass = stopClass
	s.Run()
	return s, nil
}

func sameViolation(s *Sim, want Violation) *Violation {
	for i := range s.Violations {
		v := &s.Violations[i]
		if v.Class() == want.Class() {
			return v
		}
	}
	return nil
}

func writeReplayUnminimised(tracePath string, v Violation, out string) error {
	t, err := loadTrace(tracePath)
	if err != nil {
		return err
	}
	s, err := replayTrace(t, v.Class())
	if err != nil {
		return err
	}
	rf := &ReplayFile{Property: v.Prop, Violation: v, Seed: t.Seed, OrigBlocks: len(t.Blocks), OrigTxs: countTxs(t), Blocks: len(t.Blocks), Txs: countTxs(t), Trace: t, Hashes: s.Hashes}
	if got := sameViolation(s, v); got != nil {
		rf.Violation = *got
	}
	bz, _ := json.MarshalIndent(rf, "", " ")
	return os.WriteFile(out, bz, 0o644)
}

// minimizeAndWrite delta-debugs the trace while the same violation class
// persists, then writes the replay file.
func minimizeAndWrite(tracePath string, v Violation, out string, budget time.Duration) error {
	t, err := loadTrace(tracePath)
	if err != nil {
		return err
	}
	deadline := time.Now().Add(budget)
	execs := 0
	test := func(c *Trace) bool {
		execs++
		s, err := replayTrace(c, v.Class())
		if err != nil || s.HarnessErr != "" {
			return false
		}
		return sameViolation(s, v) != nil
	}
	orig := cloneTrace(t)
	if !test(t) {
		return fmt.Errorf("trace does not reproduce %s on replay", v.Class())
	}
	cur := cloneTrace(t)
	// 1. cut everything after the violation height
	if int(v.Height)-1 < len(cur.Blocks) && v.Height > 1 {
		c := cloneTrace(cur)
		c.Blocks = c.Blocks[:v.Height-1]
		if test(c) {
			cur = c
		}
	}
	// 2. ddmin over transactions
	type ref struct{ b, i int }
	flat := func(tr *Trace) []ref {
		var r []ref
		for bi, b := range tr.Blocks {
			for ti := range b.Txs {
				r = append(r, ref{bi, ti})
			}
		}
		return r
	}
	without := func(tr *Trace, drop map[ref]bool) *Trace {
		c := cloneTrace(tr)
		for bi, b := range c.Blocks {
			var keep []*TxSpec
			for ti, tx := range b.Txs {
				if !drop[ref{bi, ti}] {
					keep = append(keep, tx)
				}
			}
			c.Blocks[bi].Txs = keep
		}
		return c
	}
	n := 2
	for time.Now().Before(deadline) {
		refs := flat(cur)
		if len(refs) <= 1 {
			break
		}
		if n > len(refs) {
			n = len(refs)
		}
		chunk := (len(refs) + n - 1) / n
		reduced := false
		var cands []*Trace
		for start := 0; start < len(refs); start += chunk {
			drop := map[ref]bool{}
			for _, r := range refs[start:min(start+chunk, len(refs))] {
				drop[r] = true
			}
			cands = append(cands, without(cur, drop))
		}
		if i := testParallel(cands, v.Class(), &execs); i >= 0 {
			cur = cands[i]
			n = max(n-1, 2)
			reduced = true
		}
		if !reduced {
			if n >= len(refs) {
				break
			}
			n = min(n*2, len(refs))
		}
	}
	// 3. drop faults one by one
	for bi := range cur.Blocks {
		for fi := 0; fi < len(cur.Blocks[bi].Faults) && time.Now().Before(deadline); {
			c := cloneTrace(cur)
			c.Blocks[bi].Faults = append(append([]Fault(nil), c.Blocks[bi].Faults[:fi]...), c.Blocks[bi].Faults[fi+1:]...)
			if test(c) {
				cur = c
			} else {
				fi++
			}
		}
	}
	// 4. merge away empty blocks (their dt is added to the next block)
	for bi := 0; bi < len(cur.Blocks)-1 && time.Now().Before(deadline); {
		b := cur.Blocks[bi]
		if len(b.Txs) > 0 || len(b.Faults) > 0 {
			bi++
			continue
		}
		c := cloneTrace(cur)
		c.Blocks[bi+1].DtMs += c.Blocks[bi].DtMs
		c.Blocks = append(c.Blocks[:bi], c.Blocks[bi+1:]...)
		if test(c) {
			cur = c
		} else {
			bi++
		}
	}
	// 5. normalise abnormal clock steps where that keeps the violation
	for bi := range cur.Blocks {
		if !time.Now().Before(deadline) {
			break
		}
		if cur.Blocks[bi].DtMs > 6000 || cur.Blocks[bi].DtMs < 1000 {
			c := cloneTrace(cur)
			c.Blocks[bi].DtMs = 5000
			if test(c) {
				cur = c
			}
		}
	}
	s, err := replayTrace(cur, v.Class())
	if err != nil {
		return err
	}
	got := sameViolation(s, v)
	if got == nil {
		return fmt.Errorf("minimised trace lost the violation")
	}
	rf := &ReplayFile{Property: v.Prop, Violation: *got, Seed: t.Seed, Minimised: true, OrigBlocks: len(orig.Blocks), OrigTxs: countTxs(orig),
		Blocks: len(cur.Blocks), Txs: countTxs(cur), Execs: execs, Trace: cur, Hashes: s.Hashes}
	bz, _ := json.MarshalIndent(rf, "", " ")
	return os.WriteFile(out, bz, 0o644)
}

// cmdReplay re-executes a replay file in this (fresh) process.
func cmdReplay(args []string) {
	if len(args) < 1 {
		fmt.Fprintln(os.Stderr, "usage: elyssim replay FILE")
		os.Exit(2)
	}
	bz, err := os.ReadFile(args[0])
	if err != nil {
		fmt.Fprintln(os.Stderr, err)
		os.Exit(2)
	}
	var rf ReplayFile
	if err := json.Unmarshal(bz, &rf); err != nil {
		fmt.Fprintln(os.Stderr, err)
		os.Exit(2)
	}
	rf.Trace.Cfg.Verbose = len(args) > 1 && args[1] == "-v"
	s, err := replayTrace(rf.Trace, rf.Violation.Class())
	if err != nil {
		fmt.Fprintln(os.Stderr, "replay boot:", err)
		os.Exit(2)
	}
	if s.HarnessErr != "" {
		fmt.Fprintln(os.Stderr, "HARNESS ERROR:", s.HarnessErr)
		os.Exit(2)
	}
	got := sameViolation(s, rf.Violation)
	hashOK := true
	for i := range s.Hashes {
		if i < len(rf.Hashes) && s.Hashes[i] != rf.Hashes[i] {
			hashOK = false
			fmt.Printf("app hash differs from recorded at height %d: %s vs %s\n", i+1, s.Hashes[i], rf.Hashes[i])
			break
		}
	}
	if got == nil {
		fmt.Printf("replay: violation %s NOT reproduced (%d blocks executed, hashes match recorded: %v)\n", rf.Violation.Class(), s.Height, hashOK)
		for _, v := range s.Violations {
			fmt.Printf("  other violation seen: %s %s\n", v.Class(), truncate(v.Detail, 300))
		}
		// not reproduced: the property holds on this schedule with the current code
		// (recorded hashes differ when the code under test changed since recording)
		os.Exit(0)
	}
	fmt.Printf("VIOLATION property=%s replay=%s\n", rf.Property, args[0])
	fmt.Printf("  class=%s culprit=%s height=%d (recorded height %d; hashes match recorded: %v)\n  %s\n", got.Class(), got.Culprit, got.Height, rf.Violation.Height, hashOK, got.Detail)
	os.Exit(1)
}

// cmdTryTrace: exit 0 if the trace reproduces the violation class, 1 if not, 2 on trouble.
// Used by the minimiser to test many candidate traces in parallel, one OS process each.
func cmdTryTrace(args []string) {
	if len(args) < 2 {
		os.Exit(2)
	}
	t, err := loadTrace(args[0])
	if err != nil {
		os.Exit(2)
	}
	s, err := replayTrace(t, args[1])
	if err != nil || s.HarnessErr != "" {
		os.Exit(1)
	}
	for i := range s.Violations {
		if s.Violations[i].Class() == args[1] {
			os.Exit(0)
		}
	}
	os.Exit(1)
}

// testParallel runs every candidate in its own process and returns the index of the FIRST
// candidate (lowest index, so that the outcome does not depend on timing) that still shows
// the violation class, or -1.
func testParallel(cands []*Trace, class string, execs *int) int {
	self, err := os.Executable()
	if err != nil || len(cands) == 0 {
		return -1
	}
	dir, err := os.MkdirTemp("", "elyssim-min-")
	if err != nil {
		return -1
	}
	defer os.RemoveAll(dir)
	par := runtime.NumCPU()
	if v := envInt("VERIF_MINIMIZE_PROCS", 0); v > 0 {
		par = v
	}
	ok := make([]bool, len(cands))
	sem := make(chan struct{}, par)
	var wg sync.WaitGroup
	for i, c := range cands {
		bz, _ := json.Marshal(c)
		path := filepath.Join(dir, fmt.Sprintf("c%d.json", i))
		if os.WriteFile(path, bz, 0o644) != nil {
			continue
		}
		wg.Add(1)
		*execs++
		go func(i int, path string) {
			defer wg.Done()
			sem <- struct{}{}
			defer func() { <-sem }()
			cmd := exec.Command(self, "trytrace", path, class)
			cmd.Env = append(os.Environ(), "GOMAXPROCS=2")
			ok[i] = cmd.Run() == nil
		}(i, path)
	}
	wg.Wait()
	for i, b := range ok {
		if b {
			return i
		}
	}
	return -1
}
