package main

import (
	"encoding/hex"
	"os"
	"path/filepath"
	"encoding/json"
	"fmt"
	"hash/fnv"
	"math/rand/v2"
	"sort"
	"strings"
	"time"

	abci "github.com/cometbft/cometbft/abci/types"
	cmtproto "github.com/cometbft/cometbft/proto/tendermint/types"
	sdk "github.com/cosmos/cosmos-sdk/types"
	authtypes "github.com/cosmos/cosmos-sdk/x/auth/types"
	banktypes "github.com/cosmos/cosmos-sdk/x/bank/types"
	sdkmath "cosmossdk.io/math"

	elysapp "github.com/elys-network/elys/app"
)

// ---------------------------------------------------------------------------
// Replayable trace

type Fault struct {
	Kind string `json:"kind"`          // restart_after_commit | crash_before_commit | db_read_fault | lag
	Arg  int64  `json:"arg,omitempty"` // db op count, lag length ...
}

type BlockSpec struct {
	DtMs   int64     `json:"dt_ms"`
	Txs    []*TxSpec `json:"txs"`
	Faults []Fault   `json:"faults,omitempty"`
	Note   string    `json:"note,omitempty"`
}

type Trace struct {
	Seed   uint64       `json:"seed"`
	Cfg    SwarmConfig  `json:"cfg"`
	Blocks []*BlockSpec `json:"blocks"`
}

// ---------------------------------------------------------------------------
// Executed block (what monitors see)

type ExecTx struct {
	Index  int
	Spec   *TxSpec
	Bytes  []byte
	Res    *abci.ExecTxResult
	Acc    *Account
	AccNum uint64
	Seq    uint64
}

func (t *ExecTx) OK() bool { return t.Res != nil && t.Res.Code == 0 }

type ExecBlock struct {
	Height int64
	Time   time.Time
	Spec   *BlockSpec
	Txs    []*ExecTx
	Res    BlockResult
}

// Violation is one property violation found by a monitor.
type Violation struct {
	Prop    string `json:"property"`
	Sub     string `json:"sub"`     // sub-invariant id (part of the violation class)
	Culprit string `json:"culprit"` // message type / blocker that (most likely) caused it
	Height  int64  `json:"height"`
	Detail  string `json:"detail"`
	Known   string `json:"known,omitempty"` // id of the known finding that explains it
}

func (v Violation) Class() string { return v.Prop + "/" + v.Sub }

// Monitor checks one or more properties while the run proceeds.
type Monitor interface {
	Name() string
	// AfterBlock is called after N0 committed the block.
	AfterBlock(s *Sim, b *ExecBlock)
	// AtEnd is called after the last block (history checks, drain tests).
	AtEnd(s *Sim)
}

// ---------------------------------------------------------------------------

type Sim struct {
	quietLeft int
	cooling bool
	gasSeen map[string]int64 // gas used by the last successful transaction of each message type
	Seed   uint64
	Cfg    SwarmConfig
	W      *World
	N0     *Node
	N1     *Node // crash/restart replica (nil if disabled)
	NS     *Node // differential shadow replica: failed transactions replaced by fee-only stand-ins (nil if disabled)
	Height int64
	Now    time.Time

	Trace    *Trace
	Replay   bool
	StopClass string
	Monitors []Monitor
	Hooks    *TxHooks
	Ledger   *Ledger

	Violations []Violation
	HarnessErr string // non-empty => exit 2 (never a VIOLATION)
	Stats      *Stats
	Hashes     []string // app hash per height (hex), for replay validation

	agents  []Agent
	mempool []*pendingTx
	rngs    map[string]*rand.Rand
	Blocks  []*ExecBlock // retained only when cfg.KeepBlocks
	cur     *ExecBlock

	// cached per block
	ctxCache *sdk.Context
	snap     *Snap
	modNames map[string]string
	blockLog []loggedBlock
	dumpPath string
	dumpAt   int64
	blockIdx int
	nonce    uint64
	halted   bool
	Market   *Market
	Gov      *GovAgent
	codesLog strings.Builder
}

type pendingTx struct {
	spec    *TxSpec
	readyAt int64
	order   uint64
}

func hash64(s string) uint64 {
	h := fnv.New64a()
	h.Write([]byte(s))
	return h.Sum64()
}

// Rng returns the named PRNG stream of this run. Streams are derived from the
// seed by name so that adding an agent does not shift other streams.
func (s *Sim) Rng(name string) *rand.Rand {
	r, ok := s.rngs[name]
	if !ok {
		r = rand.New(rand.NewPCG(s.Seed, hash64(name)))
		s.rngs[name] = r
	}
	return r
}

func (s *Sim) Violate(prop, sub, culprit, format string, args ...any) {
	v := Violation{Prop: prop, Sub: sub, Culprit: culprit, Height: s.Height, Detail: fmt.Sprintf(format, args...)}
	// de-duplicate by class: keep the first occurrence (that is what gets minimised)
	for _, o := range s.Violations {
		if o.Class() == v.Class() && o.Culprit == v.Culprit {
			s.Stats.Inc("violation_repeat/"+v.Class(), 1)
			return
		}
	}
	s.Violations = append(s.Violations, v)
}

func (s *Sim) Harness(format string, args ...any) {
	if s.HarnessErr == "" {
		s.HarnessErr = fmt.Sprintf("h=%d: ", s.Height) + fmt.Sprintf(format, args...)
	}
}

// Ctx is a read-only context over N0's last committed state with the header of
// the last block.
func (s *Sim) Ctx() sdk.Context {
	if s.ctxCache != nil {
		return *s.ctxCache
	}
	c := s.N0.App.BaseApp.NewUncachedContext(false, cmtproto.Header{Height: s.Height, Time: s.Now, ChainID: ChainID})
	cc, _ := c.CacheContext() // never written back
	s.ctxCache = &cc
	return cc
}

// NewSim boots nodes and runs InitChain.
func NewSim(seed uint64, cfg SwarmConfig, replay *Trace) (*Sim, error) {
	s := &Sim{Seed: seed, Cfg: cfg, rngs: map[string]*rand.Rand{}, Stats: NewStats(), gasSeen: map[string]int64{}}
	s.W = NewWorld(cfg.Genesis)
	s.Hooks = &TxHooks{sim: s}
	var err error
	if s.N0, err = NewNode("n0", NewSimDB(), s.Hooks); err != nil {
		return nil, err
	}
	if err = s.N0.InitChain(s.W); err != nil {
		return nil, fmt.Errorf("initchain n0: %w", err)
	}
	if cfg.Replica {
		if cfg.ProdBoot {
			s.N1, err = NewProdNode("n1", NewSimDB())
			s.Stats.Inc("fault/replica_started_the_production_way", 1)
		} else {
			s.N1, err = NewNode("n1", NewSimDB(), nil)
		}
		if err != nil {
			return nil, err
		}
		if err = s.N1.InitChain(s.W); err != nil {
			return nil, fmt.Errorf("initchain n1: %w", err)
		}
	}
	if cfg.Shadow {
		if s.NS, err = NewNode("shadow", NewSimDB(), nil); err != nil {
			return nil, err
		}
		if err = s.NS.InitChain(s.W); err != nil {
			return nil, fmt.Errorf("initchain shadow: %w", err)
		}
	}
	s.Now = cfg.Genesis.GenesisTime
	// block 1 is an empty boot block (commits the genesis state); traces start at height 2
	s.Now = s.Now.Add(5 * time.Second)
	s.Height = 1
	b1 := &Block{Height: 1, Time: s.Now}
	if r := s.N0.Apply(s.W, b1); r.Err != nil || r.Panic != "" {
		return nil, fmt.Errorf("boot block failed on n0: %v %s", r.Err, r.Panic)
	}
	if s.N1 != nil {
		if r := s.N1.Apply(s.W, b1); r.Err != nil || r.Panic != "" {
			return nil, fmt.Errorf("boot block failed on n1: %v %s", r.Err, r.Panic)
		}
	}
	if s.NS != nil {
		if r := s.NS.Apply(s.W, b1); r.Err != nil || r.Panic != "" {
			return nil, fmt.Errorf("boot block failed on shadow: %v %s", r.Err, r.Panic)
		}
	}
	s.Ledger = NewLedger(s)
	if replay != nil {
		s.Replay = true
		s.Trace = replay
	} else {
		s.Trace = &Trace{Seed: seed, Cfg: cfg}
	}
	s.Monitors = buildMonitors(s)
	if !s.Replay {
		s.agents = buildAgents(s)
	}
	return s, nil
}

// Submit hands a transaction to the simulated network.
func (s *Sim) Submit(spec *TxSpec) {
	net := s.Rng("net")
	f := s.Cfg.Faults
	if f.TxDrop > 0 && net.Float64() < f.TxDrop {
		s.Stats.Inc("fault/tx_dropped", 1)
		return
	}
	ready := s.Height + 1
	if f.TxDelay > 0 && net.Float64() < f.TxDelay {
		ready += 1 + int64(net.IntN(4))
		s.Stats.Inc("fault/tx_delayed", 1)
	}
	s.mempool = append(s.mempool, &pendingTx{spec: spec, readyAt: ready, order: uint64(len(s.mempool))})
	if f.TxDup > 0 && net.Float64() < f.TxDup {
		d := *spec
		d.SeqMode = "dup"
		d.Tag = spec.Tag + "+dup"
		s.mempool = append(s.mempool, &pendingTx{spec: &d, readyAt: ready + int64(net.IntN(2))})
		s.Stats.Inc("fault/tx_duplicated", 1)
	}
}

// propose builds the next block from the mempool: which transactions and in
// which order is decided by the seeded sequencer.
func (s *Sim) propose() []*TxSpec {
	rng := s.Rng("comet")
	h := s.Height + 1
	var ready, rest []*pendingTx
	for _, p := range s.mempool {
		if p.readyAt <= h {
			ready = append(ready, p)
		} else {
			rest = append(rest, p)
		}
	}
	// group by sender keeping per-sender FIFO, then interleave senders randomly
	bySender := map[string][]*pendingTx{}
	var senders []string
	for _, p := range ready {
		if _, ok := bySender[p.spec.Signer]; !ok {
			senders = append(senders, p.spec.Signer)
		}
		bySender[p.spec.Signer] = append(bySender[p.spec.Signer], p)
	}
	sort.Strings(senders)
	var out []*TxSpec
	maxTx := s.Cfg.MaxBlockTxs
	for len(senders) > 0 {
		i := rng.IntN(len(senders))
		q := bySender[senders[i]]
		if len(out) < maxTx {
			out = append(out, q[0].spec)
		} else {
			q[0].readyAt = h + 1
			rest = append(rest, q[0])
		}
		if len(q) == 1 {
			senders = append(senders[:i], senders[i+1:]...)
		} else {
			bySender[senders[i]] = q[1:]
		}
	}
	if s.Cfg.Faults.TxReorder > 0 && len(out) > 1 && rng.Float64() < s.Cfg.Faults.TxReorder {
		rng.Shuffle(len(out), func(i, j int) { out[i], out[j] = out[j], out[i] })
		s.Stats.Inc("fault/block_fully_shuffled", 1)
	}
	s.mempool = rest
	return out
}

// Step generates (or replays) and executes one block. Returns false when the
// run must stop (violation that stops the run, harness error, end of replay).
func (s *Sim) Step() bool {
	var spec *BlockSpec
	if s.Replay {
		idx := s.blockIdx
		if idx >= len(s.Trace.Blocks) {
			return false
		}
		spec = s.Trace.Blocks[idx]
	} else {
		spec = s.generateBlock()
		s.Trace.Blocks = append(s.Trace.Blocks, spec)
	}
	s.blockIdx++
	s.execBlock(spec)
	return s.HarnessErr == "" && !s.stopOnViolation()
}

// stopOnViolation: generation never stops on a violation (other properties'
// monitors keep running; repeated instances are de-duplicated by class and
// culprit). Replays stop as soon as the target class was reproduced.
func (s *Sim) stopOnViolation() bool {
	if len(s.Violations) > 200 {
		return true
	}
	if s.StopClass == "" {
		return false
	}
	for _, v := range s.Violations {
		if v.Class() == s.StopClass {
			return true
		}
	}
	return false
}

func (s *Sim) generateBlock() *BlockSpec {
	spec := &BlockSpec{}
	clk := s.Rng("clock")
	spec.DtMs = s.Cfg.drawDt(clk, s)
	// node-level faults
	if s.N1 != nil {
		fr := s.Rng("nodefaults")
		f := s.Cfg.Faults
		if f.Restart > 0 && fr.Float64() < f.Restart {
			switch fr.IntN(3) {
			case 0:
				spec.Faults = append(spec.Faults, Fault{Kind: "restart_after_commit"})
			case 1:
				spec.Faults = append(spec.Faults, Fault{Kind: "crash_before_commit"})
			case 2:
				spec.Faults = append(spec.Faults, Fault{Kind: "db_read_fault", Arg: int64(fr.IntN(400))})
			}
		}
		if s.Cfg.RestartEveryHeight {
			spec.Faults = []Fault{{Kind: "restart_after_commit"}}
		}
		if fr.IntN(3) == 0 {
			spec.Faults = append([]Fault{{Kind: "replica_mempool_and_queries"}}, spec.Faults...)
		}
	}
	// cool-down (bounded liveness once faults stop): for the last CoolDown blocks of a run no
	// fault is injected, only the feeders, governance and the canary act; the canary's plain
	// requests must be served (evidence counters canary_served/..., canary_refused/...)
	cooling := s.Cfg.CoolDown > 0 && s.blockIdx >= s.Cfg.Horizon-s.Cfg.CoolDown
	if cooling && !s.cooling {
		s.cooling = true
		s.Cfg.Faults = FaultCfg{}
		s.mempool = nil
		spec.Faults = nil
		s.Stats.Probe("cool_down_started")
	}
	if cooling {
		spec.DtMs = 4000
		spec.Faults = nil
	}
	// quiet period (fault): for a while nobody but the price feeders and governance sends anything -
	// an idle chain whose blockers run on whatever state the busy period left behind
	if s.quietLeft == 0 && !cooling && s.Cfg.Faults.Quiet > 0 && s.Height > 10 && s.Rng("quiet").Float64() < s.Cfg.Faults.Quiet {
		s.quietLeft = 3 + s.Rng("quiet").IntN(13)
		s.Stats.Inc("fault/quiet_period_started", 1)
	}
	quiet := s.quietLeft > 0
	if quiet {
		s.quietLeft--
		s.Stats.Inc("fault/quiet_block", 1)
	}
	// agents act on the committed state
	for _, a := range s.agents {
		if (cooling || quiet) && a.Name() != "feeder" && a.Name() != "gov" && a.Name() != "canary" {
			continue
		}
		func() {
			// agents call the chain's own query/price functions, which can panic on degenerate
			// states (a real client would just see a failed query)
			defer func() {
				if r := recover(); r != nil {
					s.Stats.Inc("probe/agent_query_panicked", 1)
				}
			}()
			a.Step(s)
		}()
	}
	spec.Txs = s.propose()
	return spec
}

// execBlock signs and applies a block on all nodes and runs the monitors.
func (s *Sim) execBlock(spec *BlockSpec) {
	s.ctxCache = nil
	h := s.Height + 1
	now := s.Now.Add(time.Duration(spec.DtMs) * time.Millisecond)
	eb := &ExecBlock{Height: h, Time: now, Spec: spec}
	// sign
	ctx := s.ctxAt(s.Height, s.Now)
	seqs := map[string]uint64{}
	blk := &Block{Height: h, Time: now}
	for i, ts := range spec.Txs {
		if ts.Msgs == nil {
			if err := decodeSpec(s.N0, ts); err != nil {
				s.Harness("trace tx decode: %v", err)
				return
			}
		}
		acc := s.W.ByAddr[ts.Signer]
		if acc == nil {
			s.Harness("unknown signer %s", ts.Signer)
			return
		}
		accI := s.N0.App.AccountKeeper.GetAccount(ctx, acc.Addr)
		if accI == nil {
			s.Harness("signer %s has no account", ts.Signer)
			return
		}
		base := accI.GetSequence()
		seq := base + seqs[ts.Signer]
		switch ts.SeqMode {
		case "stale", "dup":
			if seq > 0 {
				seq--
			} else {
				seq = 0
			}
		case "future":
			seq += 3
		default:
			seqs[ts.Signer]++
		}
		bz, err := signTx(s.N0.App.TxConfig(), acc, accI.GetAccountNumber(), seq, ts)
		if err != nil {
			s.Harness("sign: %v (%s)", err, ts.Tag)
			return
		}
		blk.Txs = append(blk.Txs, bz)
		eb.Txs = append(eb.Txs, &ExecTx{Index: i, Spec: ts, Bytes: bz, Acc: acc, AccNum: accI.GetAccountNumber(), Seq: seq})
	}
	s.cur = eb
	// monitors that need the state the begin blocker will see: committed state + new header
	{
		c := s.N0.App.BaseApp.NewUncachedContext(false, cmtproto.Header{Height: h, Time: now, ChainID: ChainID})
		pre, _ := c.CacheContext()
		for _, m := range s.Monitors {
			if bb, ok := m.(interface{ BeforeBlock(*Sim, sdk.Context) }); ok {
				func() {
					defer func() {
						if r := recover(); r != nil {
							s.Harness("monitor %s BeforeBlock panicked: %v", m.Name(), r)
						}
					}()
					bb.BeforeBlock(s, pre)
				}()
			}
		}
	}
	s.Hooks.beginBlock(eb)
	res0 := s.N0.Finalize(s.W, blk)
	if n := s.N0.DB.ReleaseAll(); n > 0 {
		// cosmos-sdk's gaskv store charges the seek gas after it has created the parent
		// iterator and before it hands the iterator to the caller: an out-of-gas panic there
		// (our gas-starvation fault) leaks a database iterator. On a real disk that is a
		// resource leak reclaimed by the GC finalizer; a MemDB iterator holds a read lock and
		// Commit would dead-lock, so the simulated disk reclaims them here.
		s.Stats.Inc("probe/db_iterator_leaked_on_out_of_gas", float64(n))
	}
	if dbg := os.Getenv("ELYSSIM_DEBUG_EVENTS"); dbg != "" && res0.Resp != nil && dbg == fmt.Sprint(h) {
		for i, tr := range res0.Resp.TxResults {
			for _, ev := range tr.Events {
				if ev.Type == "message" || ev.Type == "tx" || ev.Type == "coin_spent" || ev.Type == "coin_received" {
					continue
				}
				fmt.Printf("DEBUGTXEV h=%d tx=%d code=%d %s", h, i, tr.Code, ev.Type)
				for _, a := range ev.Attributes {
					fmt.Printf(" %s=%s", a.Key, a.Value)
				}
				fmt.Println()
			}
		}
		for _, ev := range res0.Resp.Events {
			if strings.HasPrefix(ev.Type, "coin_") || ev.Type == "transfer" || ev.Type == "message" || ev.Type == "coinbase" || ev.Type == "burn" || ev.Type == "mint" {
				continue
			}
			fmt.Printf("DEBUGEV h=%d %s", h, ev.Type)
			for _, a := range ev.Attributes {
				fmt.Printf(" %s=%s", a.Key, a.Value)
			}
			fmt.Println()
		}
	}
	if res0.Err == nil && res0.Panic == "" {
		s.N0.Commit(&res0)
	}
	eb.Res = res0
	s.Height, s.Now = h, now
	s.ctxCache = nil
	if eb.Res.Err != nil || eb.Res.Panic != "" {
		// C18: block processing failed. The chain is halted; stop the run.
		msg := eb.Res.Panic
		if msg == "" {
			msg = eb.Res.Err.Error()
		}
		s.Violate("C18", "block_failed/"+eb.Res.Phase, classifyHalt(msg), "block %d %s failed: %s", h, eb.Res.Phase, truncate(msg, 3000))
		s.Stats.Inc("halt", 1)
		s.haltedRun()
		return
	}
	for i, r := range eb.Res.Resp.TxResults {
		eb.Txs[i].Res = r
		fmt.Fprintf(&s.codesLog, "%d/%d:%d:%d;", h, i, r.Code, r.GasUsed)
	}
	s.Hashes = append(s.Hashes, hex.EncodeToString(eb.Res.AppHash))
	if s.Cfg.Reexec {
		lb := loggedBlock{Height: h, TimeNs: now.UnixNano(), Hash: hex.EncodeToString(eb.Res.AppHash)}
		for _, bz := range blk.Txs {
			lb.Txs = append(lb.Txs, hex.EncodeToString(bz))
		}
		s.blockLog = append(s.blockLog, lb)
		if s.dumpAt == 0 && h == s.Cfg.ReexecDumpAt {
			p := filepath.Join(os.TempDir(), fmt.Sprintf("elyssim-dbdump-%d-%d.gob", os.Getpid(), s.Seed))
			if err := dumpDB(s.N0.DB, p); err == nil {
				s.dumpPath, s.dumpAt = p, h
			}
		}
	}
	s.recordTxStats(eb)
	// replica
	if s.N1 != nil {
		s.applyReplica(spec, blk, eb)
	}
	if s.NS != nil {
		s.applyShadow(blk, eb)
	}
	s.Ledger.Ingest(s, eb)
	for _, m := range s.Monitors {
		func() {
			defer func() {
				if r := recover(); r != nil {
					s.Harness("monitor %s panicked: %v", m.Name(), r)
				}
			}()
			m.AfterBlock(s, eb)
		}()
	}
	s.Stats.Inc("blocks", 1)
	s.Stats.Add("sim_seconds", float64(spec.DtMs)/1000)
	s.Stats.noteState(s)
	if s.Cfg.KeepBlocks {
		s.Blocks = append(s.Blocks, eb)
	}
	// mailbox: let agents see results
	if !s.Replay {
		for _, a := range s.agents {
			a.Observe(s, eb)
		}
	}
}

func (s *Sim) haltedRun() { s.HarnessErr = ""; s.halted = true }

func (s *Sim) ctxAt(h int64, t time.Time) sdk.Context {
	c := s.N0.App.BaseApp.NewUncachedContext(false, cmtproto.Header{Height: h, Time: t, ChainID: ChainID})
	cc, _ := c.CacheContext()
	return cc
}

func classifyHalt(msg string) string {
	// first elys frame in the stack, or first line of the error
	for _, ln := range strings.Split(msg, "\n") {
		ln = strings.TrimSpace(ln)
		if strings.HasPrefix(ln, "github.com/elys-network/elys/x/") {
			f := strings.TrimPrefix(ln, "github.com/elys-network/elys/")
			if i := strings.Index(f, "("); i > 0 {
				f = f[:i]
			}
			return f
		}
	}
	l := strings.SplitN(msg, "\n", 2)[0]
	return truncate(l, 120)
}

func truncate(s string, n int) string {
	if len(s) <= n {
		return s
	}
	return s[:n] + "…"
}

func (s *Sim) recordTxStats(eb *ExecBlock) {
	for _, t := range eb.Txs {
		typ := "?"
		if len(t.Spec.Msgs) > 0 {
			typ = shortType(sdk.MsgTypeURL(t.Spec.Msgs[0]))
		}
		if t.OK() && strings.HasSuffix(t.Spec.Tag, "+gascut") {
			// the meter ran dry inside the handler and the transaction still succeeded: a recover /
			// log-and-continue path absorbed the out-of-gas panic
			s.Stats.Probe("gas_cut_absorbed_by_handler")
		}
		if t.OK() {
			if len(t.Spec.Msgs) > 0 && t.Res.GasUsed > 0 {
				s.gasSeen[sdk.MsgTypeURL(t.Spec.Msgs[0])] = t.Res.GasUsed
			}
			s.Stats.Inc("tx_ok/"+typ, 1)
			s.Stats.Inc("tx_ok", 1)
		} else {
			s.Stats.Inc("tx_fail/"+typ, 1)
			s.Stats.Inc("tx_fail", 1)
			if strings.Contains(t.Res.Log, "out of gas") {
				s.Stats.Inc("fault/tx_out_of_gas", 1)
			}
			if s.Cfg.Verbose {
				fmt.Printf("  h=%d tx#%d %s FAIL code=%d: %s\n", eb.Height, t.Index, typ, t.Res.Code, truncate(t.Res.Log, 200))
			}
		}
	}
}

func shortType(url string) string {
	url = strings.TrimPrefix(url, "/")
	url = strings.TrimPrefix(url, "elys.")
	return url
}

// applyReplica feeds the same block to N1 with crash/restart faults.
func (s *Sim) applyReplica(spec *BlockSpec, blk *Block, eb *ExecBlock) {
	var kinds []string
	for _, f := range spec.Faults {
		kinds = append(kinds, f.Kind)
	}
	res := BlockResult{}
	done := false
	for _, f := range spec.Faults {
		switch f.Kind {
		case "replica_mempool_and_queries":
			// what a real node does besides executing blocks, and the reference node never does:
			// CheckTx of the block's transactions on its check state, and read-only queries through
			// the keepers (price, asset and portfolio look-ups). Neither may influence block results.
			for _, bz := range blk.Txs {
				func() {
					defer func() { _ = recover() }()
					if r, err := s.N1.App.CheckTx(&abci.RequestCheckTx{Tx: bz, Type: abci.CheckTxType_New}); err == nil && r != nil && r.Code == 0 {
						s.Stats.Inc("probe/replica_checktx_accepted", 1)
					}
				}()
			}
			func() {
				defer func() { _ = recover() }()
				qc, _ := s.N1.App.BaseApp.NewUncachedContext(true, cmtproto.Header{Height: blk.Height - 1, Time: blk.Time, ChainID: ChainID}).CacheContext()
				for _, a := range Universe {
					_, _ = s.N1.App.AssetprofileKeeper.GetEntryByDenom(qc, a.Denom)
					_ = s.N1.App.OracleKeeper.GetAssetPriceFromDenom(qc, a.Denom)
				}
				for i, u := range s.W.Users {
					if i >= 3 {
						break
					}
					_, _ = s.N1.App.TierKeeper.GetMembershipTier(qc, u.Addr)
				}
				_ = s.N1.App.AmmKeeper.GetAllPool(qc)
			}()
			s.Stats.Inc("fault/replica_ran_checktx_and_queries", 1)
		case "crash_before_commit":
			// FinalizeBlock runs, process dies before Commit, block is re-delivered after restart.
			r := s.N1.Finalize(s.W, blk)
			_ = r
			if err := s.N1.Restart(); err != nil {
				s.Violate("C19", "restart_failed", "crash_before_commit", "restart after uncommitted block %d failed: %v", blk.Height, err)
				s.N1 = nil
				return
			}
			s.Stats.Inc("fault/crash_between_finalize_and_commit", 1)
		case "db_read_fault":
			s.N1.DB.ArmReadFault(f.Arg)
			r := s.N1.Finalize(s.W, blk)
			failed := s.N1.DB.Failed.Load() > 0
			s.N1.DB.Disarm()
			s.N1.DB.Failed.Store(0)
			if r.Panic != "" || r.Err != nil || failed {
				// disk error => node dies; restart and re-deliver
				if err := s.N1.Restart(); err != nil {
					s.Violate("C19", "restart_failed", "db_read_fault", "restart after disk fault in block %d failed: %v", blk.Height, err)
					s.N1 = nil
					return
				}
				s.Stats.Inc("fault/crash_by_disk_read_error_inside_finalize", 1)
			} else {
				// fault did not hit (fewer reads than armed): finish normally
				s.N1.Commit(&r)
				res, done = r, true
				s.Stats.Inc("fault/disk_fault_armed_not_hit", 1)
			}
		}
	}
	if !done {
		res = s.N1.Finalize(s.W, blk)
		s.N1.DB.ReleaseAll()
		if res.Err == nil && res.Panic == "" {
			s.N1.Commit(&res)
		}
	}
	s.compareReplica("n1", eb, res, strings.Join(kinds, ","))
	if s.N1 == nil {
		return
	}
	for _, f := range spec.Faults {
		if f.Kind == "restart_after_commit" {
			if err := s.N1.Restart(); err != nil {
				s.Violate("C19", "restart_failed", "restart_after_commit", "restart after block %d failed: %v", blk.Height, err)
				s.N1 = nil
				return
			}
			s.Stats.Inc("fault/restart_after_commit", 1)
		}
	}
}

func (s *Sim) compareReplica(name string, eb *ExecBlock, res BlockResult, faults string) {
	culprit := "replica"
	if faults != "" {
		culprit = faults
	}
	if res.Err != nil || res.Panic != "" {
		msg := res.Panic
		if msg == "" {
			msg = res.Err.Error()
		}
		s.Violate("C19", "replica_failed", culprit, "replica %s failed block %d (%s) that the reference processed: %s", name, eb.Height, res.Phase, truncate(msg, 2000))
		s.N1 = nil
		return
	}
	if hex.EncodeToString(res.AppHash) != hex.EncodeToString(eb.Res.AppHash) {
		s.Violate("C19", "apphash_diverged", culprit, "height %d: reference %X replica %s %X (faults: %s)%s", eb.Height, eb.Res.AppHash, name, res.AppHash, faults, diffResults(eb.Res.Resp, res.Resp))
		s.N1 = nil
		return
	}
	if d := diffResults(eb.Res.Resp, res.Resp); d != "" {
		s.Violate("C19", "results_diverged", culprit, "height %d: same app hash but different results (faults: %s)%s", eb.Height, faults, d)
		s.N1 = nil
	}
	s.Stats.Inc("replica_blocks_compared", 1)
}

func diffResults(a, b *abci.ResponseFinalizeBlock) string {
	if a == nil || b == nil {
		return ""
	}
	var sb strings.Builder
	if len(a.TxResults) != len(b.TxResults) {
		fmt.Fprintf(&sb, "\n  #txresults %d vs %d", len(a.TxResults), len(b.TxResults))
		return sb.String()
	}
	for i := range a.TxResults {
		x, y := a.TxResults[i], b.TxResults[i]
		// Log and Info are excluded: ABCI declares them non-deterministic (panic logs carry stack addresses)
		if x.Code != y.Code || x.Codespace != y.Codespace || x.GasUsed != y.GasUsed || x.GasWanted != y.GasWanted || string(x.Data) != string(y.Data) {
			fmt.Fprintf(&sb, "\n  tx %d: code %d/%d gas %d/%d log %q / %q", i, x.Code, y.Code, x.GasUsed, y.GasUsed, truncate(x.Log, 200), truncate(y.Log, 200))
		}
		if ex, ey := eventsString(x.Events), eventsString(y.Events); ex != ey {
			fmt.Fprintf(&sb, "\n  tx %d: events differ", i)
			for j := 0; j < len(x.Events) && j < len(y.Events); j++ {
				if a, b := eventsString(x.Events[j:j+1]), eventsString(y.Events[j:j+1]); a != b {
					fmt.Fprintf(&sb, " (first difference at event %d: %s | %s)", j, truncate(a, 400), truncate(b, 400))
					break
				}
			}
		}
	}
	// begin/end-block events are not transaction results and are not compared (the property speaks of app hash and tx results)
	if len(a.ValidatorUpdates) != len(b.ValidatorUpdates) {
		fmt.Fprintf(&sb, "\n  validator updates differ")
	}
	return sb.String()
}

func eventsString(evs []abci.Event) string {
	bz, _ := json.Marshal(evs)
	return string(bz)
}

// Run executes the whole run.
func (s *Sim) Run() {
	horizon := s.Cfg.Horizon
	if s.Replay {
		horizon = len(s.Trace.Blocks)
	}
	for i := 0; i < horizon; i++ {
		if !s.Step() || s.halted {
			break
		}
	}
	s.finishReexec()
	if s.HarnessErr == "" && !s.halted {
		for _, m := range s.Monitors {
			func() {
				defer func() {
					if r := recover(); r != nil {
						s.Harness("monitor %s AtEnd panicked: %v", m.Name(), r)
					}
				}()
				m.AtEnd(s)
			}()
		}
	}
}


// moduleName maps a module account address to its name ("" if not a module account).
func (s *Sim) moduleName(addr string) string {
	if s.modNames == nil {
		s.modNames = map[string]string{}
		for name := range elysapp.GetMaccPerms() {
			s.modNames[authtypes.NewModuleAddress(name).String()] = name
		}
		for _, name := range []string{"perpetual", "leveragelp", "tradeshield", "oracle", "estaking", "tier", "accountedpool", "assetprofile", "tokenomics", "parameter", "epochs", "transferhook"} {
			if _, ok := s.modNames[authtypes.NewModuleAddress(name).String()]; !ok {
				s.modNames[authtypes.NewModuleAddress(name).String()] = name
			}
		}
	}
	return s.modNames[addr]
}


// applyShadow feeds the differential shadow replica: every transaction that
// failed on the reference node is replaced by a stand-in from the same signer,
// with the same sequence, fee, gas limit and memo, whose only message fails
// trivially in the handler (a bank send the account cannot afford); transactions
// that were refused before/inside the ante handler are dropped. A refused
// transaction must leave nothing but its ante effects, so the app hashes of the
// reference and the shadow must be identical after every block.
func (s *Sim) applyShadow(blk *Block, eb *ExecBlock) {
	sb := &Block{Height: blk.Height, Time: blk.Time}
	replaced, dropped := 0, 0
	var failed []*ExecTx
	for _, t := range eb.Txs {
		if t.OK() {
			sb.Txs = append(sb.Txs, t.Bytes)
			continue
		}
		failed = append(failed, t)
		antePassed := false
		for _, ev := range t.Res.Events {
			if ev.Type == "tx" {
				antePassed = true
			}
		}
		if !antePassed {
			dropped++
			continue
		}
		spec := &TxSpec{Signer: t.Spec.Signer, Gas: t.Spec.Gas, Fee: t.Spec.Fee, Memo: t.Spec.Memo,
			Msgs: []sdk.Msg{&banktypes.MsgSend{FromAddress: t.Spec.Signer, ToAddress: t.Spec.Signer, Amount: sdk.NewCoins(sdk.NewCoin(DenomUSDC, sdkmath.NewIntWithDecimal(1, 30)))}}}
		bz, err := signTx(s.NS.App.TxConfig(), t.Acc, t.AccNum, t.Seq, spec)
		if err != nil {
			s.Harness("shadow stand-in sign: %v", err)
			return
		}
		sb.Txs = append(sb.Txs, bz)
		replaced++
	}
	res := s.NS.Finalize(s.W, sb)
	s.NS.DB.ReleaseAll()
	if res.Err == nil && res.Panic == "" {
		s.NS.Commit(&res)
	}
	if res.Err != nil || res.Panic != "" {
		s.Harness("shadow replica failed block %d: %v %s", blk.Height, res.Err, truncate(res.Panic, 500))
		s.NS = nil
		return
	}
	s.Stats.Inc("shadow_blocks_compared", 1)
	s.Stats.Inc("shadow_failed_tx_replaced_by_stand_in", float64(replaced))
	s.Stats.Inc("shadow_failed_tx_dropped_ante", float64(dropped))
	if hex.EncodeToString(res.AppHash) == hex.EncodeToString(eb.Res.AppHash) {
		return
	}
	// which failed transaction is to blame: those of this block (named in the violation)
	var names []string
	attack := false
	for _, t := range failed {
		names = append(names, fmt.Sprintf("#%d %s [%s] code=%d %s", t.Index, txStep(t), t.Spec.Tag, t.Res.Code, truncate(firstLine(t.Res.Log), 120)))
		if strings.HasPrefix(t.Spec.Tag, "attack/") {
			attack = true
		}
	}
	prop, sub := "C18", "failed_tx_left_effects"
	if attack {
		prop, sub = "C17", "refused_message_changed_state"
	}
	culprit := "?"
	if len(failed) == 1 {
		culprit = txStep(failed[0])
	} else if len(failed) > 1 {
		culprit = "one of " + fmt.Sprint(len(failed)) + " failed txs"
	}
	s.Violate(prop, sub, culprit, "height %d: the state differs from a replica in which the refused transactions were replaced by fee-only stand-ins (app hash %X vs %X); failed transactions of this block:\n    %s", blk.Height, eb.Res.AppHash, res.AppHash, strings.Join(names, "\n    "))
	if attack && prop == "C17" {
		// the same divergence is also a C18 isolation violation
		s.Violate("C18", "failed_tx_left_effects", culprit, "height %d: see C17/refused_message_changed_state", blk.Height)
	}
	s.NS = nil // diverged for good
}
