package main

import (
	"errors"
	"os"
	"runtime/debug"
	"sync"
	"sync/atomic"

	dbm "github.com/cosmos/cosmos-db"
)

// SimDB is the simulated disk of one node. The durable content lives in an
// in-memory dbm.MemDB that survives "process death": a crash/restart of a node
// discards the ElysApp object (keeper memory, IAVL caches, transient and memory
// stores, baseapp volatile states) and builds a new one over the same SimDB.
//
// It counts operations (reach measurement) and can inject a read fault: after
// FailAfter further operations every Get/Has/Iterator returns an error, which
// the store layer turns into a panic -> the node is treated as crashed.
type SimDB struct {
	inner     *dbm.MemDB
	Reads     atomic.Int64
	Writes    atomic.Int64
	Iters     atomic.Int64
	failAfter atomic.Int64 // <0: disabled; otherwise remaining ops before failing
	Failed    atomic.Int64 // number of operations that were failed by injection
	mu        sync.Mutex
	open      map[int64]*simIter
	nextIter  int64
}

var errSimDisk = errors.New("simdb: injected disk read error")

func NewSimDB() *SimDB {
	d := &SimDB{inner: dbm.NewMemDB()}
	d.failAfter.Store(-1)
	return d
}

// ArmReadFault makes the n-th next read-side operation (and all after it) fail.
func (d *SimDB) ArmReadFault(n int64) { d.failAfter.Store(n) }
func (d *SimDB) Disarm()              { d.failAfter.Store(-1) }

func (d *SimDB) tick() error {
	for {
		v := d.failAfter.Load()
		if v < 0 {
			return nil
		}
		if v == 0 {
			d.Failed.Add(1)
			return errSimDisk
		}
		if d.failAfter.CompareAndSwap(v, v-1) {
			return nil
		}
	}
}

func (d *SimDB) Get(k []byte) ([]byte, error) {
	d.Reads.Add(1)
	if err := d.tick(); err != nil {
		return nil, err
	}
	return d.inner.Get(k)
}
func (d *SimDB) Has(k []byte) (bool, error) {
	d.Reads.Add(1)
	if err := d.tick(); err != nil {
		return false, err
	}
	return d.inner.Has(k)
}
func (d *SimDB) Set(k, v []byte) error     { d.Writes.Add(1); return d.inner.Set(k, v) }
func (d *SimDB) SetSync(k, v []byte) error { d.Writes.Add(1); return d.inner.SetSync(k, v) }
func (d *SimDB) Delete(k []byte) error     { d.Writes.Add(1); return d.inner.Delete(k) }
func (d *SimDB) DeleteSync(k []byte) error { d.Writes.Add(1); return d.inner.DeleteSync(k) }
func (d *SimDB) Iterator(s, e []byte) (dbm.Iterator, error) {
	d.Iters.Add(1)
	if err := d.tick(); err != nil {
		return nil, err
	}
	it, err := d.inner.Iterator(s, e)
	return d.track(it), err
}
func (d *SimDB) ReverseIterator(s, e []byte) (dbm.Iterator, error) {
	d.Iters.Add(1)
	if err := d.tick(); err != nil {
		return nil, err
	}
	it, err := d.inner.ReverseIterator(s, e)
	return d.track(it), err
}

// simIter tracks open iterators: MemDB iterators hold a read lock until closed.
// When a node "process" dies (panic inside FinalizeBlock), the operating system
// would release everything it held; ReleaseAll does that for the simulated disk.
type simIter struct {
	dbm.Iterator
	d      *SimDB
	id     int64
	closed bool
	stack  string
}

func (d *SimDB) track(it dbm.Iterator) dbm.Iterator {
	if it == nil {
		return nil
	}
	d.mu.Lock()
	defer d.mu.Unlock()
	d.nextIter++
	si := &simIter{Iterator: it, d: d, id: d.nextIter}
	if debugIters {
		si.stack = string(debug.Stack())
	}
	if d.open == nil {
		d.open = map[int64]*simIter{}
	}
	d.open[si.id] = si
	return si
}

func (it *simIter) Close() error {
	it.d.mu.Lock()
	if it.closed {
		it.d.mu.Unlock()
		return nil
	}
	it.closed = true
	delete(it.d.open, it.id)
	it.d.mu.Unlock()
	return it.Iterator.Close()
}

// ReleaseAll closes every iterator the dead process left open. Returns how many.
func (d *SimDB) ReleaseAll() int {
	d.mu.Lock()
	var its []*simIter
	for _, it := range d.open {
		its = append(its, it)
	}
	d.mu.Unlock()
	for _, it := range its {
		_ = it.Close()
	}
	return len(its)
}

// Close is a no-op: the disk outlives the process.
func (d *SimDB) Close() error                    { return nil }
func (d *SimDB) NewBatch() dbm.Batch             { return &simBatch{d: d, b: d.inner.NewBatch()} }
func (d *SimDB) NewBatchWithSize(n int) dbm.Batch { return &simBatch{d: d, b: d.inner.NewBatchWithSize(n)} }
func (d *SimDB) Print() error                    { return nil }
func (d *SimDB) Stats() map[string]string        { return d.inner.Stats() }

type simBatch struct {
	d *SimDB
	b dbm.Batch
}

func (b *simBatch) Set(k, v []byte) error { b.d.Writes.Add(1); return b.b.Set(k, v) }
func (b *simBatch) Delete(k []byte) error { b.d.Writes.Add(1); return b.b.Delete(k) }
func (b *simBatch) Write() error          { return b.b.Write() }
func (b *simBatch) WriteSync() error      { return b.b.WriteSync() }
func (b *simBatch) Close() error          { return b.b.Close() }
func (b *simBatch) GetByteSize() (int, error) {
	return b.b.GetByteSize()
}

var debugIters = os.Getenv("ELYSSIM_DEBUG_ITERS") != ""

// OpenIterators returns the number of iterators currently open (and the creation
// stack of one of them when ELYSSIM_DEBUG_ITERS is set).
func (d *SimDB) OpenIterators() (int, string) {
	d.mu.Lock()
	defer d.mu.Unlock()
	for _, it := range d.open {
		return len(d.open), it.stack
	}
	return 0, ""
}
