package main

import (
	"errors"
	"sync/atomic"

	dbm "github.com/cosmos/cosmos-db"
)

// SimDB is the simulated disk of one node. The durable content lives in an
// in-memory dbm.MemDB that survives "process death": a crash/restart of a node
// discards the ElysApp object (keeper memory, IAVL caches, transient and memory
// stores, baseapp volatile states) and builds a new one over the same SimDB.
//
// It counts operations (reach measurement) and can inject a read fault: after
// FailAfter further operations every Get/Has/Iterator returns an error, which
// the store layer turns into a panic -> the node is treated as crashed.
type SimDB struct {
	inner     *dbm.MemDB
	Reads     atomic.Int64
	Writes    atomic.Int64
	Iters     atomic.Int64
	failAfter atomic.Int64 // <0: disabled; otherwise remaining ops before failing
	Failed    atomic.Int64 // number of operations that were failed by injection
}

var errSimDisk = errors.New("simdb: injected disk read error")

func NewSimDB() *SimDB {
	d := &SimDB{inner: dbm.NewMemDB()}
	d.failAfter.Store(-1)
	return d
}

// ArmReadFault makes the n-th next read-side operation (and all after it) fail.
func (d *SimDB) ArmReadFault(n int64) { d.failAfter.Store(n) }
func (d *SimDB) Disarm()              { d.failAfter.Store(-1) }

func (d *SimDB) tick() error {
	for {
		v := d.failAfter.Load()
		if v < 0 {
			return nil
		}
		if v == 0 {
			d.Failed.Add(1)
			return errSimDisk
		}
		if d.failAfter.CompareAndSwap(v, v-1) {
			return nil
		}
	}
}

func (d *SimDB) Get(k []byte) ([]byte, error) {
	d.Reads.Add(1)
	if err := d.tick(); err != nil {
		return nil, err
	}
	return d.inner.Get(k)
}
func (d *SimDB) Has(k []byte) (bool, error) {
	d.Reads.Add(1)
	if err := d.tick(); err != nil {
		return false, err
	}
	return d.inner.Has(k)
}
func (d *SimDB) Set(k, v []byte) error     { d.Writes.Add(1); return d.inner.Set(k, v) }
func (d *SimDB) SetSync(k, v []byte) error { d.Writes.Add(1); return d.inner.SetSync(k, v) }
func (d *SimDB) Delete(k []byte) error     { d.Writes.Add(1); return d.inner.Delete(k) }
func (d *SimDB) DeleteSync(k []byte) error { d.Writes.Add(1); return d.inner.DeleteSync(k) }
func (d *SimDB) Iterator(s, e []byte) (dbm.Iterator, error) {
	d.Iters.Add(1)
	if err := d.tick(); err != nil {
		return nil, err
	}
	return d.inner.Iterator(s, e)
}
func (d *SimDB) ReverseIterator(s, e []byte) (dbm.Iterator, error) {
	d.Iters.Add(1)
	if err := d.tick(); err != nil {
		return nil, err
	}
	return d.inner.ReverseIterator(s, e)
}

// Close is a no-op: the disk outlives the process.
func (d *SimDB) Close() error                    { return nil }
func (d *SimDB) NewBatch() dbm.Batch             { return &simBatch{d: d, b: d.inner.NewBatch()} }
func (d *SimDB) NewBatchWithSize(n int) dbm.Batch { return &simBatch{d: d, b: d.inner.NewBatchWithSize(n)} }
func (d *SimDB) Print() error                    { return nil }
func (d *SimDB) Stats() map[string]string        { return d.inner.Stats() }

type simBatch struct {
	d *SimDB
	b dbm.Batch
}

func (b *simBatch) Set(k, v []byte) error { b.d.Writes.Add(1); return b.b.Set(k, v) }
func (b *simBatch) Delete(k []byte) error { b.d.Writes.Add(1); return b.b.Delete(k) }
func (b *simBatch) Write() error          { return b.b.Write() }
func (b *simBatch) WriteSync() error      { return b.b.WriteSync() }
func (b *simBatch) Close() error          { return b.b.Close() }
func (b *simBatch) GetByteSize() (int, error) {
	return b.b.GetByteSize()
}
