package main

import (
	"sort"
)

// Stats: reach measurement of one run (merged across runs by the driver).
type Stats struct {
	C      map[string]float64 `json:"counters"`
	States map[uint64]struct{} `json:"-"`
	Grams  map[uint64]struct{} `json:"-"`
	last2  map[string][2]string
}

func NewStats() *Stats {
	return &Stats{C: map[string]float64{}, States: map[uint64]struct{}{}, Grams: map[uint64]struct{}{}, last2: map[string][2]string{}}
}

func (s *Stats) Inc(k string, n float64) { s.C[k] += n }
func (s *Stats) Add(k string, n float64) { s.C[k] += n }
func (s *Stats) Probe(k string)          { s.C["probe/"+k]++ }

// Gram records one event on the timeline of an object (pool, account...) and
// counts distinct 3-grams of events per timeline kind.
func (s *Stats) Gram(timeline, ev string) {
	l := s.last2[timeline]
	if l[0] != "" {
		s.Grams[hash64(l[0]+"|"+l[1]+"|"+ev)] = struct{}{}
	}
	s.last2[timeline] = [2]string{l[1], ev}
}

func (s *Stats) SortedKeys() []string {
	ks := make([]string, 0, len(s.C))
	for k := range s.C {
		ks = append(ks, k)
	}
	sort.Strings(ks)
	return ks
}
