package main

import (
	"fmt"
	"sort"
	"strings"

	sdk "github.com/cosmos/cosmos-sdk/types"
)

// Issue is one currently violated instance of a sub-invariant.
type Issue struct {
	Sub    string // sub-invariant id (violation class = property/sub)
	Inst   string // instance (pool id, denom, address ...)
	Detail string
}

// StepMon evaluates a state invariant at every observation point of a block —
// after begin-block+ante of each transaction, after the messages of each
// successful transaction, and at the block boundary — and attributes a newly
// violated instance to the step in which it appeared (the culprit).
// Only violations present at a block boundary are reported (the properties are
// stated "at every block boundary"); the transaction-level observations serve
// to name the culprit.
type StepMon struct {
	Prop string
	// Eval returns the currently violated instances in the state seen through ctx.
	// step is a description of the step that just finished (for monitors that
	// need to account for expected changes, e.g. donations).
	Eval func(s *Sim, ctx sdk.Context) []Issue
	// OnTxOK lets the monitor update its expectations before Eval (optional).
	OnTxOK func(s *Sim, t *ExecTx)
	// BeforeBoundary runs before the block-boundary evaluation (ledger of the block is available).
	BeforeBoundary func(s *Sim, eb *ExecBlock)

	sim      *Sim
	present  map[string]string // Sub|Inst -> culprit step at which it appeared
	nEvals   int
	lastStep string
	seenTx   bool
}

func (m *StepMon) Name() string { return m.Prop }
func (m *StepMon) AtEnd(s *Sim)  {}

func txStep(t *ExecTx) string {
	set := map[string]bool{}
	for _, msg := range flattenMsgs(t.Spec.Msgs) {
		set[shortType(sdk.MsgTypeURL(msg))] = true
	}
	ks := make([]string, 0, len(set))
	for k := range set {
		ks = append(ks, k)
	}
	sort.Strings(ks)
	return strings.Join(ks, "+")
}

func (m *StepMon) observe(ctx sdk.Context, step string, boundary bool) {
	s := m.sim
	if m.present == nil {
		m.present = map[string]string{}
	}
	m.nEvals++
	issues := m.Eval(s, ctx)
	now := map[string]bool{}
	for _, is := range issues {
		k := is.Sub + "|" + is.Inst
		now[k] = true
		if _, ok := m.present[k]; !ok {
			m.present[k] = step
		}
		if boundary {
			s.Violate(m.Prop, is.Sub, m.present[k], "%s: %s (first seen after step: %s)", is.Inst, is.Detail, m.present[k])
		}
	}
	for k := range m.present {
		if !now[k] {
			delete(m.present, k) // healed before the boundary: transient intra-block state
		}
	}
}

func (m *StepMon) PreTx(ctx sdk.Context, t *ExecTx) {
	step := "ante"
	if !m.seenTx {
		step = "BeginBlock(+ante)"
	}
	m.seenTx = true
	m.observe(ctx, step, false)
}

func (m *StepMon) PostTx(ctx sdk.Context, t *ExecTx) {
	if m.OnTxOK != nil {
		m.OnTxOK(m.sim, t)
	}
	m.observe(ctx, txStep(t), false)
}

func (m *StepMon) AfterBlock(s *Sim, eb *ExecBlock) {
	step := "EndBlock"
	if len(eb.Txs) == 0 {
		step = "BeginBlock+EndBlock"
	}
	if m.BeforeBoundary != nil {
		m.BeforeBoundary(s, eb)
	}
	m.observe(s.Ctx(), step, true)
	s.Stats.Inc("checks/"+m.Prop, float64(m.nEvals))
	m.nEvals = 0
	m.seenTx = false
}

func issuef(sub, inst, format string, args ...any) Issue {
	return Issue{Sub: sub, Inst: inst, Detail: fmt.Sprintf(format, args...)}
}
