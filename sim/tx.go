package main

import (
	"context"
	"fmt"

	"github.com/cosmos/cosmos-sdk/client"
	sdk "github.com/cosmos/cosmos-sdk/types"
	"github.com/cosmos/cosmos-sdk/types/tx/signing"
	authsigning "github.com/cosmos/cosmos-sdk/x/auth/signing"
)

// TxSpec is the replayable description of one transaction: everything except
// account number / sequence / signature, which are filled at execution time.
type TxSpec struct {
	Signer   string    `json:"signer"`             // bech32 of the signing account (must be in World)
	Msgs     []sdk.Msg `json:"-"`                  // decoded messages
	MsgsJSON []string  `json:"msgs"`               // Any-JSON of each message (the replay form)
	Gas      uint64    `json:"gas"`                // gas limit (fault: drawn low => out-of-gas at an arbitrary store access)
	Fee      string    `json:"fee"`                // coins string
	SeqMode  string    `json:"seq_mode,omitempty"` // "" | "stale" | "future" | "dup"
	Tag      string    `json:"tag,omitempty"`      // who produced it / why (agent, attack class...)
	Memo     string    `json:"memo,omitempty"`
}

func signTx(txCfg client.TxConfig, acc *Account, accNum, seq uint64, spec *TxSpec) ([]byte, error) {
	b := txCfg.NewTxBuilder()
	if err := b.SetMsgs(spec.Msgs...); err != nil {
		return nil, err
	}
	fee, err := sdk.ParseCoinsNormalized(spec.Fee)
	if err != nil {
		return nil, fmt.Errorf("fee %q: %w", spec.Fee, err)
	}
	b.SetFeeAmount(fee)
	b.SetGasLimit(spec.Gas)
	b.SetMemo(spec.Memo)
	mode := signing.SignMode_SIGN_MODE_DIRECT
	sig := signing.SignatureV2{
		PubKey:   acc.Priv.PubKey(),
		Data:     &signing.SingleSignatureData{SignMode: mode},
		Sequence: seq,
	}
	if err := b.SetSignatures(sig); err != nil {
		return nil, err
	}
	signerData := authsigning.SignerData{
		Address:       acc.Addr.String(),
		ChainID:       ChainID,
		AccountNumber: accNum,
		Sequence:      seq,
		PubKey:        acc.Priv.PubKey(),
	}
	bytesToSign, err := authsigning.GetSignBytesAdapter(context.Background(), txCfg.SignModeHandler(), mode, signerData, b.GetTx())
	if err != nil {
		return nil, err
	}
	sigBytes, err := acc.Priv.Sign(bytesToSign)
	if err != nil {
		return nil, err
	}
	sig.Data = &signing.SingleSignatureData{SignMode: mode, Signature: sigBytes}
	if err := b.SetSignatures(sig); err != nil {
		return nil, err
	}
	return txCfg.TxEncoder()(b.GetTx())
}
