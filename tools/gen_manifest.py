#!/usr/bin/env python3
"""Regenerate /verif/MANIFEST.json. Edit CLAIMS / NOT_APPLICABLE here."""
import json, os
ROOT = os.path.dirname(os.path.dirname(os.path.abspath(__file__)))
props = [json.loads(l) for l in open(os.path.join(ROOT, 'properties.jsonl'))]

COMMON_NOTE = ("Trusted base: the simulator (/verif/sim: seeded sequencer, SimNet, SimClock, SimDB, agents, bank-event ledger with per-block self-check against real balances/supply), "
  "cosmos-sdk/IAVL below the ABCI boundary run as real code; CometBFT, IBC counterparties, Band and the ICS provider are stubbed/absent. Sampling, not enumeration: a clean batch is evidence, not proof. "
  "Upgrade migrations never run.")

# property id -> (technique, level text, design ref, extra note)
CLAIMS = {
 'C01': ("deterministic simulation: state invariant evaluated at every transaction boundary and block boundary (culprit localisation) over real keeper state, seeded multi-party swap/join/exit/leverage/perpetual traffic with tx loss/dup/reorder, gas-starvation aborts, oracle outages, clock jumps",
         "Every committed block of every simulated history: for every pool and asset book reserve <= bank balance of the pool address and the excess is explained by plain third-party sends; per-denom liquidity total == sum of reserves.", "5/C01", ""),
 'C02': ("deterministic simulation: step-wise invariant (TotalShares = supply = sum committed = custody) + bank-event ledger attribution of every share mint/burn to a join/create/exit",
         "Checked at every transaction and block boundary of every simulated history, including leveraged-LP joins/exits on behalf of position addresses and liquidations.", "5/C02", ""),
 'C03': ("deterministic simulation: every executed swap (all swaps execute in the amm end blocker) is re-priced against pool reserves reconstructed from the ordered real bank movements immediately before it; exact rational bound for equal weights, float bound with the stated 1e-8 allowance for unequal weights, oracle-value bound for oracle pools (both on the stated output and on everything that leaves the pool's address while the swap is in flight); for swaps belonging to user requests a fee-aware bound (input reduced by the smallest fee any tier discount and two-hop routing rule allows); history probes on discarded branches of reached states: A->B->A round trips and k-way split trades (exact-in and exact-out forms) through the chain's own routing functions must not gain beyond the allowance",
         "Held on every swap of every explored history (user requests, fee conversions, multi-hop hops, both directions). Does not cover the numeric input space of the pure pricing functions uniformly: reserves, weights, fees and prices are swarm-randomised and evolve along trajectories.", "5/C03", "Numeric-domain completeness of the pure functions is out of this technique's reach."),
 'C04': ("deterministic simulation: reference model with one record per accepted swap request (diff of the transient queue after every transaction), matched against the ordered end-block swap settlements and cross-checked with the bank-event ledger; schedules = seeded block composition/order, duplicates, same/opposite directions on one pool",
         "Each accepted request settles at most once within its limits or leaves no movement; no settlement without a request of the same block; queue empty before the first transaction of the next block.", "5/C04", ""),
 'C05': ("deterministic simulation: per-share pool value recorded at every transaction/block boundary; whenever a step changed a pool's share supply (join, exit, leveraged-LP open/close, sweep liquidation) the per-share value left behind must not fall beyond the stated rounding allowance",
         "Constant-product pools: ln(weighted geometric mean of reserves / shares); oracle pools: value at oracle prices per share on the basis the step's operations are priced against (accounted balances for one-asset joins/exits and all leveraged-LP operations, raw reserves for all-asset operations; steps mixing both or moving perpetual liabilities/custody: a fall must show under both). Exits emptying a reserve or the share supply are flagged.", "5/C05", "Numeric-domain completeness of the pure functions is out of this technique's reach."),
 'C06': ("deterministic simulation: exact equation TotalValue == cash + sum(principal + stacked - paid interest) evaluated at every transaction and block boundary under lender / leveraged-LP / liquidation traffic, clock jumps and interest-rate changes",
         "Exact integer equality after every step of every simulated history.", "5/C06", ""),
 'C07': ("deterministic simulation: big.Rat reference of the redemption rate around every bond/unbond (pre/post state of the transaction), monotonic rate on every other step, immediate bond->unbond round trips generated in one block, 90% cap after every step that raised principal",
         "Per operation and per step on every simulated history; amounts from 1 base unit upward, non-integral rates after interest accrual.", "5/C07", "Numeric-domain completeness of the pure functions is out of this technique's reach."),
 'C08': ("deterministic simulation: step-wise invariant pool total == sum of positions, position shares == committed shares at the position address, counter == stored positions, nothing left at addresses of closed positions; bots naming arbitrary/all positions, begin-block sweep with small page sizes, gas starvation inside close handlers",
         "Checked at every transaction and block boundary.", "5/C08", ""),
 'C09': ("deterministic simulation: step-wise invariant pool custody/liabilities/collateral per side and asset == sums over stored positions, counter == #positions, amm reserve >= total custody; long/short/consolidate/top-up/close/liquidation traffic with funding and interest settlement, gas starvation incl. the exact gas cut (abort <delta> gas units before the end of the handler)",
         "Checked at every transaction and block boundary.", "5/C09", ""),
 'C11': ("deterministic simulation: step-wise invariant accounted balance == reserve + liabilities - custody and non-amm part == liabilities - custody under alternating amm-side and perpetual-side operations",
         "Checked at every transaction and block boundary (take-profit term off, as in the default parameters).", "5/C11", ""),
 'C12': ("deterministic simulation: step-wise invariants total == sum over accounts (bug-compatible relation for known finding F04), custody >= committed + claimed for bank-backed denoms, no negative committed; lock-up reference model around every step with the monitor's own lock ledger (every growth of an account's committed oracle-pool shares is a one-hour lock, independently of what the chain recorded; the larger of ledger and chain records counts; amount still under lock in the pre-state must remain committed unless the step liquidates a position that was unhealthy at its turn, taken from C10's mirror of the handler loop); commit/uncommit/bond/unbond/join/exit/leveraged-LP (incl. debt-free positions and owners naming their own positions in close-positions)/vesting/EdenB traffic",
         "Checked at every transaction and block boundary. The chain-wide total deviates by exactly 2 x uncommitted (known finding F04, not repairable without failing the existing suite); any other drift is a violation.", "5/C12", ""),
 'C14': ("deterministic simulation: integer reference model of every vesting entry applied per vest/claim/cancel/vest-now transaction (pre/post state), conservation Eden in == released + returned + scheduled, every entry's own start/length/released amount carried across cancels and governance changes of the vesting parameters, claims must not fail",
         "Per transaction on every simulated history; schedules 5..100 blocks, 1..10 concurrent vestings, claims/cancels at arbitrary heights.", "5/C14", ""),
 'C15': ("deterministic simulation: state-based: the supply of every externally issued denom is constant across every block; event-based: every coinbase/burn event of every block (ledger self-checked against real supply of every denom) must be an allowed kind: vesting release of uelys by commitment, burner/gov/slashing burns of uelys, share mint/burn by amm/stablestake",
         "Every block of every simulated history, failed transactions and liquidations included.", "5/C15", ""),
 'C16': ("deterministic simulation: reference model map[(asset,source)][timestamp] + feeder registry derived from authorised transactions and executed gov proposals, compared with the real lookups of every known asset/denom after every block; names that are prefixes/concatenations of one another, feeder (de)activation/removal, non-feeder feeds, expiry by time and by blocks",
         "After every block of every simulated history. Exact store-key collisions of concatenated names are known finding F11.", "5/C16", ""),
 'C18': ("deterministic simulation with fault injection: oracle outages, clock gaps/jumps (1 ms .. 40 days), restarts, adversarial/dust traffic, governance proposals moving one numeric/boolean field of any module's Params (enumerated by reflection) to an edge value that the module's own validation accepts, structural governance edges (pool parameters, pool and asset listings, chain-wide constants, inflation schedules), quiet periods in which only feeders and governance act, a permanently locked account created at the burn address, a fault-free cool-down with canary requests at the end of every run (bounded-liveness evidence); oracle = FinalizeBlock/Commit never errors or panics on any node",
         "Every FinalizeBlock and Commit of every node in every run must succeed; a failure is reported with the minimised trace.", "5/C18", ""),
 'C19': ("deterministic simulation with crash/restart injection: twin replicas fed identical blocks, restart after commit / between FinalizeBlock and Commit / by injected disk read error; the replica also runs CheckTx and keeper queries the reference never runs; a fresh OS process re-executes the block log from genesis and from a database dump under another TZ/GOMAXPROCS; in half of the runs the replicas start the production way (NewElysApp(loadLatest=true), nothing of the harness installed); a third child (go1.26.8 testing/synctest bubble) re-executes it under a simulated wall clock that starts in the year 2000 and jumps by minutes to decades between blocks; thorough tier restarts the replica after every height",
         "App hash, tx results (code, codespace, gas, data, events) and validator updates compared after every block between a reference node and a replica that is crashed and rebuilt from its SimDB.", "5/C19", ""),
 'C10': ("deterministic simulation: at the exact moment (pre-state of each third-party close-positions transaction through the ante wrapper; committed state + new header for the begin-block sweep) the chain's own health functions and trigger prices are evaluated on a discarded cache context; a clearly non-closable position must come out unchanged; every successful open must leave health > safety factor in the final state",
         "Bots naming arbitrary (owner,id) pairs incl. all positions in one message, racing in any order, price paths hovering around liquidation, stop-loss/take-profit near the market. Multi-position messages and the begin-block sweep are mirrored with the chain's own functions on a discarded branch, each position judged when its turn comes. Successful opens and collateral top-ups are re-checked with the borrow interest accrued.", "5/C10", ""),
 'C13': ("deterministic simulation: after every block module balance >= sum of floor(pending) over all pools and holders recomputed in big.Rat from stored accumulators and the commitment ledger; per-holder growth bound (no reward for uncommitted time); drain test on a discarded branch of the state (all holders claim in seeded random order) at sampled heights and at the end of every run",
         "Swap fees, perpetual revenue, gas fees in several denoms, external incentives with overlapping ranges, joins/exits/bonds/unbonds between distributions, governance toggling Eden rewards / multipliers / reward portions.", "5/C13", ""),
 'C17': ("deterministic simulation: every registered elys message type is enumerated by reflection (cosmos.msg.v1.signer); each authority-bearing type (38) is sent by ordinary accounts at random points of every history with reflection-generated content, with real governance content re-signed, and wrapped in authz.MsgExec without grant; owner-scoped messages are pointed at other parties' live positions/orders; oracle = refused AND byte-identical app hash with a differential shadow replica where the refused transaction is replaced by a fee-only stand-in",
         "Enumeration of message types is a plain loop over the router; the simulation contributes many reachable states and the differential 'state unchanged' oracle. Evidence lists per type whether the refusal came from the handler's authorisation check or from earlier validation.", "5/C17", "assetprofile MsgAddEntry and oracle MsgCreateAssetInfo carry a plain creator and no authority comparison in this snapshot; they are outside the statement (no authority field) and are exercised as ordinary traffic."),
 'C20': ("deterministic simulation: reference model per tradeshield transaction on exact pre/post state: wallet + escrow conserved per owner unless one of its orders was legitimately executed, execution requests leave orders/escrow/positions untouched unless the trigger held in the pre-state (chain's own price functions), cancel returns the whole escrow, update/cancel by non-owners never succeed",
         "Create/update/cancel by owners and non-owners, execution requests from arbitrary senders for arbitrary ids while the trigger is unmet / met / met but the downstream action fails, oracle and pool price moves in the same block.", "5/C20", ""),

}
NOT_YET = "check not built yet in this revision of /verif (simulation monitor planned in DESIGN.md section 5); not claimed until it runs"

checks, na = [], []
for p in props:
    pid = p['id']
    if pid in CLAIMS:
        tech, text, ref, note = CLAIMS[pid]
        cat = 'exploration'
        thorough_level = None
        checks.append({
          'property_id': pid,
          'quick_cmd': f'./check {pid} quick',
          'thorough_cmd': f'./check {pid} thorough',
          'evidence_file': f'/verif/evidence/{pid}.json',
          'replay_cmd_template': './check replay {path}',
          'engine': 'elyssim',
          'level_claimed': {'category': cat, 'text': text, 'design_ref': 'DESIGN.md §' + ref},
          'level_note': (note + ' ' if note else '') + COMMON_NOTE,
          'technique': tech,
        })
    else:
        na.append({'property_id': pid, 'reason': NOT_YET})
m = {
 'version': 1,
 'setup_cmd': './build.sh',
 'hooks': {'guard': 'verif', 'enable': 'no hooks were needed: every seam is an exported interface (dbm.DB, BaseApp.SetAnteHandler/SetPostHandler, ABCI requests)', 'baseline_off_cmd': 'cd /repo && go test -mod=mod -vet=off -count=1 ./...', 'source_commits': [], 'add_only': True},
 'engines': [{'name': 'elyssim', 'path': '/verif/sim', 'serves_properties': [c['property_id'] for c in checks], 'kind_free_text': 'deterministic whole-application simulator with fault injection (Go, real ElysApp over simulated consensus/network/clock/disk)'}],
 'checks': checks,
 'not_applicable': na,
 'notes': 'Known findings and fixes: /verif/known_findings.json. Replays: ./check replay <file>. Determinism self-test: ./check selftest.',
}
json.dump(m, open(os.path.join(ROOT, 'MANIFEST.json'), 'w'), indent=1)
print('claimed', len(checks), 'not claimed', len(na))
