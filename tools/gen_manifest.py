#!/usr/bin/env python3
"""Regenerate /verif/MANIFEST.json. Edit CLAIMS / NOT_APPLICABLE here."""
import json, os
ROOT = os.path.dirname(os.path.dirname(os.path.abspath(__file__)))
props = [json.loads(l) for l in open(os.path.join(ROOT, 'properties.jsonl'))]

COMMON_NOTE = ("Trusted base: the simulator (/verif/sim: seeded sequencer, SimNet, SimClock, SimDB, agents, bank-event ledger with per-block self-check against real balances/supply), "
  "cosmos-sdk/IAVL below the ABCI boundary run as real code; CometBFT, IBC counterparties, Band and the ICS provider are stubbed/absent. Sampling, not enumeration: a clean batch is evidence, not proof. "
  "Upgrade migrations never run.")

# property id -> (technique, level text, design ref, extra note)
CLAIMS = {
 'C01': ("deterministic simulation: block-boundary invariant over real keeper state + bank-event ledger, seeded multi-party swap/join/exit/leverage traffic with tx loss/dup/reorder, gas-starvation aborts, oracle outages, clock jumps",
         "Every committed block of every simulated history: for every pool and asset book reserve <= bank balance of the pool address and the excess is explained by plain third-party sends; per-denom liquidity total == sum of reserves.", "5/C01", ""),
 'C02': ("deterministic simulation: block-boundary invariant (TotalShares = supply = sum committed = custody) + ledger attribution of every share mint/burn to a join/create/exit",
         "Checked after every block of every simulated history, including leveraged-LP joins/exits on behalf of position addresses and liquidations.", "5/C02", ""),
 'C18': ("deterministic simulation with fault injection: oracle outages, clock gaps/jumps (1 ms .. 40 days), restarts, adversarial/dust traffic; oracle = FinalizeBlock/Commit never errors or panics",
         "Every FinalizeBlock and Commit of every node in every run must succeed; a failure is reported with the minimised trace.", "5/C18", ""),
 'C19': ("deterministic simulation with crash/restart injection: twin replicas fed identical blocks, restart after commit / between FinalizeBlock and Commit / by injected disk read error; thorough tier restarts the replica after every height",
         "App hash, tx results (code, gas, data, log, events) and validator updates compared after every block between a reference node and a replica that is crashed and rebuilt from its SimDB.", "5/C19", ""),
}
NOT_YET = "check not built yet in this revision of /verif (simulation monitor planned in DESIGN.md section 5); not claimed until it runs"

checks, na = [], []
for p in props:
    pid = p['id']
    if pid in CLAIMS:
        tech, text, ref, note = CLAIMS[pid]
        cat = 'exploration'
        checks.append({
          'property_id': pid,
          'quick_cmd': f'./check {pid} quick',
          'thorough_cmd': f'./check {pid} thorough',
          'evidence_file': f'/verif/evidence/{pid}.json',
          'replay_cmd_template': './check replay {path}',
          'engine': 'elyssim',
          'level_claimed': {'category': cat, 'text': text, 'design_ref': 'DESIGN.md §' + ref},
          'level_note': (note + ' ' if note else '') + COMMON_NOTE,
          'technique': tech,
        })
    else:
        na.append({'property_id': pid, 'reason': NOT_YET})
m = {
 'version': 1,
 'setup_cmd': './build.sh',
 'hooks': {'guard': 'verif', 'enable': 'no hooks were needed: every seam is an exported interface (dbm.DB, BaseApp.SetAnteHandler/SetPostHandler, ABCI requests)', 'baseline_off_cmd': 'cd /repo && go test -mod=mod -vet=off -count=1 ./...', 'source_commits': [], 'add_only': True},
 'engines': [{'name': 'elyssim', 'path': '/verif/sim', 'serves_properties': [c['property_id'] for c in checks], 'kind_free_text': 'deterministic whole-application simulator with fault injection (Go, real ElysApp over simulated consensus/network/clock/disk)'}],
 'checks': checks,
 'not_applicable': na,
 'notes': 'Known findings and fixes: /verif/known_findings.json. Replays: ./check replay <file>. Determinism self-test: ./check selftest.',
}
json.dump(m, open(os.path.join(ROOT, 'MANIFEST.json'), 'w'), indent=1)
print('claimed', len(checks), 'not claimed', len(na))
