#!/bin/bash
# usage: ingest9.sh <worktree name under /tmp/mut> <seeded id> <pkg dir> <run regex> <demo path in worktree> <property> [tier]
# Like ingest_mutant.sh, but the property's check runs from a PRIVATE COPY of the machinery (so /verif/bin and
# /verif/sim/go.mod are not disturbed while development continues) against a scratch worktree with the patch.
set -u
W=/tmp/mut/$1; ID=$2; PKG=$3; RUN=$4; DEMO=$5; PROP=$6; TIER=${7:-quick}
cd /verif
if [ -d "$W" ]; then
  tools/verify_mutant.sh "$W" "$PKG" "$RUN" "$DEMO" 2>&1 | grep -E "VERIFIED|demo with" | tail -2
  mkdir -p seeded/$ID; cp $W/_mutant/{patch.diff,demo_test.go,NOTES.md} seeded/$ID/
  git -C /repo worktree remove --force $W
fi
d=/tmp/ms9/$ID; rm -rf $d; mkdir -p $d/v
cp -r /verif/check /verif/build.sh /verif/sim /verif/known_findings.json /verif/regressions $d/v/
rm -f $d/v/sim/go.mod $d/v/sim/go.sum
git -C /repo worktree add --detach $d/repo HEAD >/dev/null 2>&1
git -C $d/repo apply /verif/seeded/$ID/patch.diff || { echo "patch does not apply"; git -C /repo worktree remove --force $d/repo; exit 2; }
B=240; [ "$TIER" = thorough ] && B=${THOROUGH_S:-420}
( cd $d/v && VERIF_REPO=$d/repo VERIF_WORKERS=${VERIF_WORKERS:-6} VERIF_MINIMIZE_S=${VERIF_MINIMIZE_S:-20} VERIF_BUDGET_S=$B ./check $PROP $TIER > /tmp/try_$ID.log 2>&1; echo $? > $d/rc )
RC=$(cat $d/rc)
git -C /repo worktree remove --force $d/repo; git -C /repo worktree prune
rm -rf $d
grep -E "^VIOLATION|quick:|thorough:|HARNESS|note:" /tmp/try_$ID.log | cut -c1-300 | head -6
grep -m1 -A1 "class=" /tmp/try_$ID.log | cut -c1-400
echo "$ID $PROP $TIER exit=$RC"
