#!/bin/bash
# usage: ingest_mutant.sh <worktree name under /tmp/mut> <seeded id> <pkg dir> <run regex> <demo path in worktree> <property> [tier]
# verify in the sub-agent's worktree, store under seeded/, remove the worktree, then try the property's
# check against a scratch worktree with the patch applied (never touches /repo's working tree).
set -u
W=/tmp/mut/$1; ID=$2; PKG=$3; RUN=$4; DEMO=$5; PROP=$6; TIER=${7:-quick}
cd /verif
tools/verify_mutant.sh "$W" "$PKG" "$RUN" "$DEMO" 2>&1 | grep -E "VERIFIED|demo with" | tail -2
mkdir -p seeded/$ID; cp $W/_mutant/{patch.diff,demo_test.go,NOTES.md} seeded/$ID/
git -C /repo worktree remove --force $W
S=/tmp/repo_try_$$
git -C /repo worktree add --detach $S HEAD >/dev/null 2>&1
git -C $S apply /verif/seeded/$ID/patch.diff || { echo "patch does not apply"; git -C /repo worktree remove --force $S; exit 2; }
VERIF_WORKERS=${VERIF_WORKERS:-8} VERIF_REPO=$S VERIF_MINIMIZE_S=${VERIF_MINIMIZE_S:-30} ./check $PROP $TIER > /tmp/try_$ID.log 2>&1; RC=$?
git -C /repo worktree remove --force $S; git -C /repo worktree prune
grep -E "^VIOLATION|quick:|thorough:|HARNESS|note:" /tmp/try_$ID.log | cut -c1-300 | head -6
grep -m1 -A1 "class=" /tmp/try_$ID.log | cut -c1-400
echo "$ID $PROP exit=$RC"
