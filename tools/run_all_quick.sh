#!/bin/bash
# run every claimed quick check on the current tree; summary on stdout
cd /verif
for p in $(python3 -c "import json;print(' '.join(c['property_id'] for c in json.load(open('MANIFEST.json'))['checks']))"); do
  /usr/bin/time -f "%es" ./check $p quick > /tmp/q_$p.log 2>&1; rc=$?
  echo "$p exit=$rc $(grep -E 'quick:' /tmp/q_$p.log | tail -1 | cut -c1-160) $(grep -c '^VIOLATION' /tmp/q_$p.log) viol $(tail -1 /tmp/q_$p.log)"
done
