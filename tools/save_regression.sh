#!/bin/bash
# usage: save_regression.sh <fix-commit> <replay file> <dest under regressions/>
# Keeps a minimised replay as a directed regression history only if it reproduces its violation
# with the fix reverse-applied and does not reproduce on the current tree.
set -u
C=$1; F=$2; D=$3
cd /verif
git -C /repo status --short | grep -q . && { echo "/repo not clean"; exit 2; }
git -C /repo show "$C" | git -C /repo apply -R || { echo "cannot reverse-apply $C"; exit 2; }
./check replay "$F" > /tmp/sr_rev.log 2>&1; A=$?
git -C /repo checkout -- .
./check replay "$F" > /tmp/sr_fix.log 2>&1; B=$?
echo "$C $F: reverted exit=$A (want 1), fixed exit=$B (want 0)"
if [ $A -eq 1 ] && [ $B -eq 0 ]; then mkdir -p "$(dirname "regressions/$D")"; cp "$F" "regressions/$D"; echo "SAVED regressions/$D"; else echo "NOT SAVED"; tail -3 /tmp/sr_rev.log; tail -3 /tmp/sr_fix.log; fi
