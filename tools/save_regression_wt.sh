#!/bin/bash
# usage: save_regression_wt.sh <reverted worktree> <clean worktree> <replay file> <dest under regressions/>
set -u
cd /verif
VERIF_REPO=$1 ./check replay "$3" > /tmp/sr_rev.log 2>&1; A=$?
VERIF_REPO=$2 ./check replay "$3" > /tmp/sr_fix.log 2>&1; B=$?
echo "$3: reverted exit=$A (want 1), fixed exit=$B (want 0)"
if [ $A -eq 1 ] && [ $B -eq 0 ]; then mkdir -p "$(dirname "regressions/$4")"; cp "$3" "regressions/$4"; echo "SAVED regressions/$4"; else echo "NOT SAVED"; tail -3 /tmp/sr_rev.log; tail -3 /tmp/sr_fix.log; fi
