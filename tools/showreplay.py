#!/usr/bin/env python3
import json, sys
r=json.load(open(sys.argv[1]))
n=int(sys.argv[2]) if len(sys.argv)>2 else 4
print(r['violation']['property'], r['violation']['sub'], 'culprit', r['violation']['culprit'], 'h', r['violation']['height'])
print(r['violation']['detail'][:600])
print('minimised', r['minimised'], r['orig_blocks'], r['orig_txs'], '->', r['blocks'], r['txs'], 'execs', r['minimiser_executions'])
bl=r['trace']['blocks']
for i,b in enumerate(bl):
    if i < len(bl)-n: continue
    print(' block', i+2, 'dt', b['dt_ms'], b.get('faults') or '')
    for t in b['txs'] or []:
        print('    ', t['tag'], 'gas', t['gas'], t['fee'], t['msgs'][0][:500])
g=r['trace']['cfg']['genesis']; print({k:g[k] for k in ('OraclePriceExpiry','OracleLifeBlocks','LevLpNumPerBlock','LevLpSafety','PerpSafety')})
