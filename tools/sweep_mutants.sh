#!/bin/bash
# usage: sweep_mutants.sh [lanes] [filter-regex]
# Sensitivity regression over every seeded change: each one is applied to a scratch worktree of /repo
# (never to /repo itself) and its property's check is run from a private copy of the machinery.
# Output: one line per change in /tmp/ms/summary.txt ("<id> <prop> <tier> exit=<rc>").
set -u
LANES=${1:-4}; FILTER=${2:-.}
rm -rf /tmp/ms; mkdir -p /tmp/ms
: > /tmp/ms/summary.txt
one() {
  id=$1
  meta=/verif/seeded/$id/meta.json
  prop=$(python3 -c "import json;print(json.load(open('$meta'))['check_property'])")
  tier=$(python3 -c "import json;print(json.load(open('$meta')).get('check_tier','quick'))")
  d=/tmp/ms/$id; mkdir -p $d/v
  cp -r /verif/check /verif/build.sh /verif/sim /verif/known_findings.json /verif/regressions $d/v/
  rm -f $d/v/sim/go.mod $d/v/sim/go.sum
  git -C /repo worktree add --detach $d/repo HEAD >/dev/null 2>&1
  if ! git -C $d/repo apply /verif/seeded/$id/patch.diff 2>/dev/null; then echo "$id $prop $tier exit=PATCH-DOES-NOT-APPLY" >> /tmp/ms/summary.txt; git -C /repo worktree remove --force $d/repo; return; fi
  B=240; [ "$tier" = thorough ] && B=300
  ( cd $d/v && VERIF_REPO=$d/repo VERIF_WORKERS=${SWEEP_WORKERS:-4} VERIF_MINIMIZE_S=5 VERIF_BUDGET_S=$B ./check $prop $tier > $d/log 2>&1; echo "$id $prop $tier exit=$?" >> /tmp/ms/summary.txt )
  git -C /repo worktree remove --force $d/repo
  rm -rf $d/v
}
export -f one
ls /verif/seeded | grep -E "$FILTER" | xargs -P $LANES -I{} bash -c 'one {}'
git -C /repo worktree prune
sort /tmp/ms/summary.txt
