#!/bin/bash
# usage: try_mutant.sh <seeded-id> <prop> [tier]   applies /verif/seeded/<id>/patch.diff to /repo, runs the check, undoes it.
set -u
cd /verif
ID=$1; PROP=$2; TIER=${3:-quick}
if [ -n "$(git -C /repo status --porcelain)" ]; then echo "/repo not clean"; exit 2; fi
git -C /repo apply /verif/seeded/$ID/patch.diff || exit 2
./check $PROP $TIER > /tmp/try_$ID.log 2>&1; RC=$?
git -C /repo checkout -- . 
grep -E "^VIOLATION|^KNOWN|quick:|thorough:|HARNESS" /tmp/try_$ID.log | cut -c1-300
echo "exit=$RC"
