#!/bin/bash
# usage: try_revert.sh <fix-commit> <prop> [tier]
# Sensitivity check against a real defect: reverse-apply a "fix:" commit to /repo's working
# tree (nothing is committed), run the property's check, restore the tree.
set -u
C=$1; P=$2; T=${3:-quick}
cd /verif
git -C /repo status --short | grep -q . && { echo "/repo not clean"; exit 2; }
git -C /repo show "$C" | git -C /repo apply -R || { echo "cannot reverse-apply $C"; exit 2; }
VERIF_MINIMIZE_S=${VERIF_MINIMIZE_S:-25} ./check "$P" "$T" > /tmp/revert_$C.log 2>&1; E=$?
git -C /repo checkout -- .
grep -E "^VIOLATION|^KNOWN-FINDING|^C[0-9]+ (quick|thorough):|HARNESS|class=" /tmp/revert_$C.log | cut -c1-220
echo "revert $C $P exit=$E"
