#!/bin/bash
# usage: verify_mutant.sh <worktree> <pkgdir> <run-regex> <demo file path relative to worktree>
# Confirms in the scratch worktree: patch applied -> demo FAILS, patch reverted -> demo PASSES, build ok, package tests (without demo) ok with patch.
set -u
export GOFLAGS=-mod=mod GOPROXY=off GOSUMDB=off GOTOOLCHAIN=local
W=$1; PKG=$2; RUN=$3; DEMO=$4
cd "$W" || exit 2
git apply -R --check _mutant/patch.diff 2>/dev/null || { echo "patch not applied in worktree; applying"; git apply _mutant/patch.diff || exit 2; }
go build ./... || { echo BUILD-FAIL; exit 1; }
go test -vet=off -count=1 "$PKG" -run "$RUN" > /tmp/vm_with_$$.log 2>&1; A=$?
git apply -R _mutant/patch.diff || exit 2
go test -vet=off -count=1 "$PKG" -run "$RUN" > /tmp/vm_without_$$.log 2>&1; B=$?
git apply _mutant/patch.diff || exit 2
mv "$DEMO" /tmp/vm_demo_aside_$$.go
go test -vet=off -count=1 "$PKG" > /tmp/vm_pkg_$$.log 2>&1; C=$?
mv /tmp/vm_demo_aside_$$.go "$DEMO"
echo "demo with patch exit=$A (want !=0); without patch exit=$B (want 0); package tests with patch (demo aside) exit=$C (want 0)"
[ $A -ne 0 ] && [ $B -eq 0 ] && [ $C -eq 0 ] && echo VERIFIED || echo NOT-VERIFIED
